"""Flow-insensitive mod-set of a `&mut self` method: which first-level fields of *self it may write."""
from .facts import is_local

_memo = {}


def mod_fields(facts, fn, depth=0):
    """set of field names of *self possibly modified by fn (directly, through &mut borrows handed to
    callees or closures, or by same-type helper methods); {'*'} when the whole value may change"""
    key = (id(facts), fn.path)
    if key in _memo:
        return _memo[key]
    _memo[key] = {'*'}          # recursion guard (conservative)
    pts = {}                    # local -> set of fields ('*' = whole self) it may point to mutably

    def place_target(pl):
        """fields designated by a place rooted at self or at a tracked ref local"""
        base = pl[0]
        if len(pl) >= 2 and pl[1] == '*':
            if base == 1:
                if len(pl) >= 3 and isinstance(pl[2], list) and pl[2][0] == 'f':
                    return {pl[2][2]}
                return {'*'}
            if base in pts:
                t = pts[base]
                if t == {'*'} and len(pl) >= 3 and isinstance(pl[2], list) and pl[2][0] == 'f':
                    return {pl[2][2]}
                return set(t)
        return set()

    changed = True
    rounds = 0
    while changed and rounds < 10:
        changed = False
        rounds += 1
        for blk in fn.blocks:
            if blk['cleanup']:
                continue
            for s in blk['s']:
                if s['k'] != 'assign' or not is_local(s['lhs']):
                    continue
                rv = s['rv']
                tgt = set()
                if rv['r'] in ('ref', 'rawptr') and (rv['r'] == 'rawptr' or rv['mut']):
                    tgt = place_target(rv['p'])
                elif rv['r'] == 'use' and rv['o'][0] != 'k':
                    src = rv['o'][1]
                    if is_local(src) and src[0] in pts:
                        tgt = set(pts[src[0]])
                elif rv['r'] == 'cast' and rv['o'][0] != 'k' and is_local(rv['o'][1]) and rv['o'][1][0] in pts:
                    tgt = set(pts[rv['o'][1][0]])
                if tgt and not tgt <= pts.get(s['lhs'][0], set()):
                    pts[s['lhs'][0]] = pts.get(s['lhs'][0], set()) | tgt
                    changed = True
            t = blk['t']
            if t['t'] == 'call' and is_local(t['dest']):
                # a callee given a &mut borrow may return a borrow derived from it
                tgt = set()
                for a in t['args']:
                    if a[0] != 'k' and is_local(a[1]) and a[1][0] in pts:
                        tgt |= pts[a[1][0]]
                ty = fn.locals[t['dest'][0]]['ty']
                if tgt and ty.startswith('&mut') or (tgt and 'Mut' in ty):
                    if not tgt <= pts.get(t['dest'][0], set()):
                        pts[t['dest'][0]] = pts.get(t['dest'][0], set()) | tgt
                        changed = True
    mod = set()
    for blk in fn.blocks:
        if blk['cleanup']:
            continue
        for s in blk['s']:
            lhs = s['lhs']
            if not is_local(lhs):
                mod |= place_target(lhs)
            if s['k'] == 'assign' and s['rv']['r'] == 'agg' and s['rv']['k'] == 'closure':
                for o in s['rv']['o']:
                    if o[0] != 'k' and is_local(o[1]) and o[1][0] in pts:
                        mod |= pts[o[1][0]]
        t = blk['t']
        if t['t'] == 'call':
            c = t['callee']
            for i, a in enumerate(t['args']):
                if a[0] == 'k' or not is_local(a[1]) or a[1][0] not in pts:
                    continue
                tg = pts[a[1][0]]
                if tg == {'*'} and i == 0 and depth < 6:
                    callee = facts.fn(c.get('resolved') or c.get('path'), required=False)
                    if callee is not None and callee.impl_adt == fn.impl_adt and callee.path != fn.path:
                        mod |= mod_fields(facts, callee, depth + 1)
                        continue
                mod |= tg
            if not is_local(t['dest']):
                mod |= place_target(t['dest'])
    if '*' in mod:
        mod = {'*'}
    _memo[key] = mod
    return mod
