import argparse
import os
import sys

from . import gen
from .core import run_property
from .facts import load_dir, AnchorMissing


def main():
    ap = argparse.ArgumentParser(prog='check')
    ap.add_argument('prop')
    ap.add_argument('--tier', default=os.environ.get('VERIF_TIER', 'quick'), choices=['quick', 'thorough'])
    ap.add_argument('--replay', default=None)
    ap.add_argument('--rule', default=None)
    ap.add_argument('--facts', default=None, help='use an existing fact directory (self-test only)')
    a = ap.parse_args()
    seed = int(os.environ.get('VERIF_SEED', '0') or 0)
    only_rule = a.rule
    if a.replay:
        import json
        r = json.load(open(a.replay))
        only_rule = r['rule'].split('.', 1)[1]
    if a.facts:
        d, meta = a.facts, {'scope': 'given', 'factgen_wall_s': 0.0}
    else:
        d, meta = gen.generate('lib')
    try:
        facts = load_dir(d)
        if a.tier == 'thorough' and not a.facts:
            try:
                d2, meta2 = gen.generate('all')
                facts_all = load_dir(d2)
                facts.all_targets = facts_all
                meta['all_targets'] = meta2
            except SystemExit:
                print('INCONCLUSIVE: --all-targets facts unavailable')
                return 2
        else:
            facts.all_targets = None
    except AnchorMissing as e:
        print('INCONCLUSIVE: %s' % e)
        return 2
    meta['crates'] = facts.crates
    meta['rustc'] = facts.rustc
    meta['functions_in_facts'] = len(facts.fns)
    return run_property(a.prop, facts, a.tier, seed, meta, only_rule=only_rule)


if __name__ == '__main__':
    sys.exit(main())
