"""E4: decision tables.  Enumerates acyclic paths of one body (in the exploded graph of absint, so branches
already decided by constants are not free) and records, for every *free* branch, a symbolic atom:

  ('cmp', a, b, rel)    rel ⊆ {'<','=','>'} : order relation between two rendered operands
                        (a, b sorted lexicographically so `a >= b` and `!(b > a)` give the same atom)
  ('is', place, Variant) / ('isnot', place, (Variants..))   discriminant tests
  ('bool', expr, True|False)                                  any other boolean

Integer operands are never evaluated: comparisons live in the three-point order domain.
"""
from .absint import Interp, Bound, STD_VARIANTS, freeze, _base_live as _live
from .symex import Sym, render, strip
from .facts import is_local

REL = {
    'Lt': {'<'}, 'Le': {'<', '='}, 'Gt': {'>'}, 'Ge': {'>', '='}, 'Eq': {'='}, 'Ne': {'<', '>'},
}
ALL = {'<', '=', '>'}
FLIP = {'<': '>', '>': '<', '=': '='}


def cmp_atom(op, a, b, truth):
    rel = set(REL[op]) if truth else ALL - REL[op]
    sa, sb = render(strip(a)), render(strip(b))
    if sa > sb:
        sa, sb = sb, sa
        rel = {FLIP[r] for r in rel}
    return ('cmp', sa, sb, frozenset(rel))


class PathEnum:
    def __init__(self, facts, fn, interp=None, max_paths=4096):
        self.facts = facts
        self.fn = fn
        self.it = interp or Interp(facts, fn)
        self.sym = Sym(fn, facts=facts)
        self.max_paths = max_paths
        self.revisit = False

    def place_adt(self, pl):
        """ADT path of the value stored in a place (through refs), or None"""
        fn = self.fn
        adt = fn.locals[pl[0]].get('adt')
        ty = fn.locals[pl[0]]['ty']
        cur_variant = None
        for e in pl[1:]:
            if e == '*':
                continue
            if e[0] == 'd':
                cur_variant = e[1]
                continue
            if e[0] == 'f':
                if adt in STD_VARIANTS and adt == 'std::option::Option':
                    # payload type of Option<T>: take it from the type string
                    inner = ty[ty.index('Option<') + 7:]
                    depth, out = 1, ''
                    for ch in inner:
                        if ch == '<':
                            depth += 1
                        elif ch == '>':
                            depth -= 1
                            if depth == 0:
                                break
                        out += ch
                    ty = out
                    adt = out.lstrip('&mut ').split('<', 1)[0] if out else None
                    if adt not in self.facts.adts and adt not in STD_VARIANTS:
                        adt = None
                    cur_variant = None
                    continue
                a = self.facts.adts.get(adt) if adt else None
                if a and adt == 'renoir::operator::StreamElement' and cur_variant in ('Item', 'Timestamped') and e[1] == 0 \
                        and ty.startswith(adt + '<'):
                    # payload of StreamElement<T>: instantiate the generic parameter from the type string
                    inner = ty[len(adt) + 1:-1]
                    ty = inner
                    adt = inner.split('<', 1)[0]
                    if adt not in self.facts.adts and adt not in STD_VARIANTS:
                        adt = None
                    cur_variant = None
                    continue
                if not a:
                    if ty.startswith('('):
                        from .absint import split_top
                        parts = split_top(ty[1:-1])
                        if e[1] < len(parts):
                            ty = parts[e[1]].strip()
                            adt = ty.lstrip('&').replace('mut ', '').split('<', 1)[0]
                            if adt not in self.facts.adts and adt not in STD_VARIANTS:
                                adt = None
                            continue
                    return None
                vs = a['variants']
                v = vs[0]
                if cur_variant:
                    for vv in vs:
                        if vv['name'] == cur_variant:
                            v = vv
                fl = None
                for f_ in v['fields']:
                    if f_['name'] == e[2]:
                        fl = f_
                if fl is None:
                    return None
                ty = fl['ty']
                adt = fl.get('adt')
                if adt is None and ty.startswith('std::option::Option<'):
                    adt = 'std::option::Option'
                cur_variant = None
                continue
            return None
        return adt

    def variants(self, adt):
        if adt in STD_VARIANTS:
            return STD_VARIANTS[adt]
        a = self.facts.adts.get(adt)
        if a and a['kind'] == 'enum':
            return [v['name'] for v in a['variants']]
        return None

    def atom_for(self, b, sb, nsucc, pre=None):
        """atom describing why control went from block b to successor sb (None if unconditional)"""
        t = self.fn.blocks[b]['t']
        if t['t'] != 'switch' or nsucc < 2:
            return None
        vals = [v for v, tb in t['targets'] if tb == sb]
        is_other = (t['otherwise'] == sb)
        dop = t['discr']
        # a multiply-assigned bool that currently holds a copy of another place: describe that place
        if pre is not None and dop[0] != 'k' and is_local(dop[1]):
            import json as _json
            from .facts import pkey as _pkey
            v = pre.get(_pkey(dop[1]))
            guard = 0
            while v is not None and v[0] == 'same' and guard < 4:
                dop = ['c', _json.loads(v[1])]
                v = pre.get(v[1])
                guard += 1
        d = self.sym.operand(dop)
        if pre is not None and dop[0] != 'k' and is_local(dop[1]):
            v = pre.get(_pkey(dop[1]))
            if v is not None and v[0] == 'site' and v[2] != 'T':
                d = self.sym.rvalue(self.fn.blocks[v[1]]['s'][v[2]]['rv'])
            elif v is not None and v[0] == 'site':
                ct = self.fn.blocks[v[1]]['t']
                if ct['t'] == 'call':
                    c_ = ct['callee']
                    d = ('call', c_.get('path') or 'indirect', tuple(self.sym.operand(a_) for a_ in ct['args']),
                         c_.get('resolved') or c_.get('path') or 'indirect')
        ds = strip(d)
        if ds[0] == 'discr':
            pl_s = render(strip(ds[1]))
            # a multiply-assigned enum local that currently holds a copy of another place: describe that place
            if pre is not None and is_local(t['discr'][1]):
                dd0 = self.fn.single_def(t['discr'][1][0])
                if dd0 is not None and dd0[1] != 'T':
                    n0 = self.fn.def_node(dd0)
                    if n0['rv']['r'] == 'discr' and len(n0['rv']['p']) == 1:
                        from .facts import pkey as _pk
                        v0 = pre.get(_pk(n0['rv']['p']))
                        if v0 is not None and v0[0] == 'site' and v0[2] != 'T':
                            pl_s = render(strip(self.sym.rvalue(self.fn.blocks[v0[1]]['s'][v0[2]]['rv'])))
            # find the discriminated place to learn variant names
            adt = None
            dl = t['discr'][1]
            ddef = self.fn.single_def(dl[0]) if is_local(dl) else None
            if ddef is not None and ddef[1] != 'T':
                node = self.fn.def_node(ddef)
                if node['rv']['r'] == 'discr':
                    p = self.it.norm({}, node['rv']['p'])
                    # resolve reference locals through their single definitions
                    p = self.resolve_place(node['rv']['p'])
                    adt = self.place_adt(p)
            vs = self.variants(adt) if adt else None
            if vs:
                UNIVERSE[pl_s] = frozenset(vs)

            def name(v):
                try:
                    return vs[int(v)] if vs else v
                except (ValueError, IndexError):
                    return v
            if vals and not is_other:
                if len(vals) == 1:
                    return ('is', pl_s, name(vals[0]))
                return ('isin', pl_s, tuple(sorted(name(v) for v in vals)))
            listed = tuple(sorted(name(v) for v, tb in t['targets'] if tb != sb))
            if vs and len(vs) - len(listed) == 1:
                rest = [x for x in vs if x not in listed]
                return ('is', pl_s, rest[0])
            return ('isnot', pl_s, listed)
        if t.get('dty') == 'bool':
            truth = is_other if (len(t['targets']) == 1 and t['targets'][0][0] == '0') else (vals and vals[0] != '0')
            if vals and is_other:
                return None
            neg = False
            while ds[0] == 'un' and ds[1] == 'Not':
                ds = strip(ds[2])
                neg = not neg
            if neg:
                truth = not truth
            if ds[0] == 'bin' and ds[1] in REL:
                return cmp_atom(ds[1], ds[2], ds[3], bool(truth))
            return ('bool', render(ds), bool(truth))
        # integer switch
        if vals and not is_other:
            return ('int', render(ds), tuple(vals))
        return ('intnot', render(ds), tuple(v for v, tb in t['targets'] if tb != sb))

    def resolve_place(self, pl):
        """follow `_x = &P` single definitions so that (*_x).f becomes P.f"""
        guard = 0
        while len(pl) >= 2 and pl[1] == '*' and guard < 6:
            d = self.fn.single_def(pl[0])
            if d is None or d[1] == 'T':
                break
            node = self.fn.def_node(d)
            rv = node['rv']
            if rv['r'] in ('ref', 'rawptr'):
                pl = rv['p'] + pl[2:]
            elif rv['r'] == 'use' and rv['o'][0] != 'k':
                pl = rv['o'][1] + pl[1:]
            else:
                break
            guard += 1
        return pl

    def can_return(self):
        if getattr(self, '_can_ret', None) is None:
            fn = self.fn
            can = set()
            st = list(fn.return_blocks())
            while st:
                b = st.pop()
                if b in can:
                    continue
                can.add(b)
                st.extend(fn.pred(b))
            self._can_ret = can
        return self._can_ret

    def paths(self, is_target, start=0, init=None, stop=None):
        """DNF: list of (frozenset(atoms), target block) for acyclic paths start -> target in the exploded
        graph.  Computed by memoised DFS (a node met again on the current stack contributes nothing);
        intermediate DNFs are simplified and bounded."""
        it = self.it
        fn = self.fn
        g = it.explore(start, dict(init or {}), stop=(lambda b, st: is_target(b, st) or (stop(b, st) if stop else False)))
        live = self.can_return()
        memo = {}
        onstack = set()
        budget = [0]

        def rec(n):
            if n in memo:
                return memo[n]
            b = g.block(n)
            pre = g.pre_term.get(n)
            if pre is None:
                return frozenset()
            if is_target(b, pre):
                memo[n] = frozenset([(frozenset(), b)])
                return memo[n]
            if n in g.stopped:
                memo[n] = frozenset()
                return memo[n]
            key = n if self.revisit else b
            if key in onstack:
                return None
            onstack.add(key)
            succs = g.succ(n)
            nsucc = len({g.block(m) for m in succs if g.block(m) in live})
            out = set()
            cut = False
            for m in succs:
                sb = g.block(m)
                sub = rec(m)
                if sub is None:
                    cut = True
                    continue
                if not sub:
                    continue
                a = self.atom_for(b, sb, nsucc, pre)
                lab = g.labels.get((n, m))
                extra = set()
                if a:
                    extra.add(a)
                if lab is not None:
                    extra.add(('is', '<input>', lab))
                for (c, tb) in sub:
                    out.add((c | extra if extra else c, tb))
            onstack.discard(key)
            if len(out) > 48:
                by = {}
                for c, tb in out:
                    by.setdefault(tb, []).append(c)
                out = set()
                for tb, cs in by.items():
                    for c in simplify(cs):
                        out.add((c, tb))
            budget[0] += len(out)
            if len(out) > self.max_paths or budget[0] > 300000:
                raise Bound('decision table of %s exceeds the clause bound' % fn.path)
            res = frozenset(out)
            if not cut:
                memo[n] = res     # complete only when no cycle was cut below this node
            return res
        import sys
        old = sys.getrecursionlimit()
        sys.setrecursionlimit(max(old, 20000))
        try:
            res = rec(g.root)
        finally:
            sys.setrecursionlimit(old)
        return list(res or [])


UNIVERSE = {}  # rendered discriminated place -> all variant names of its enum (filled while atoms are built)


def _variant_set(a):
    """(place, set of variants the atom allows) for discriminant atoms with a known universe"""
    if a[0] == 'is' and a[1] in UNIVERSE:
        return a[1], frozenset([a[2]])
    if a[0] == 'isin' and a[1] in UNIVERSE:
        return a[1], frozenset(a[2])
    if a[0] == 'isnot' and a[1] in UNIVERSE:
        return a[1], UNIVERSE[a[1]] - frozenset(a[2])
    return None, None


def simplify(dnf, merge_enums=False):
    """drop clauses subsumed by weaker clauses; merge clause pairs that differ in one complementary atom"""
    cl = set(dnf)
    changed = True
    while changed:
        changed = False
        for a in list(cl):
            for b in list(cl):
                if a != b and a < b and b in cl:
                    cl.discard(b)
                    changed = True
        lst = list(cl)
        for i in range(len(lst)):
            for j in range(i + 1, len(lst)):
                a, b = lst[i], lst[j]
                da, db = a - b, b - a
                if len(da) == 1 and len(db) == 1:
                    x, y = next(iter(da)), next(iter(db))
                    px, sx = _variant_set(x)
                    py, sy = _variant_set(y)
                    if merge_enums and px is not None and px == py:
                        u = sx | sy
                        cl.discard(a)
                        cl.discard(b)
                        if u == UNIVERSE[px]:
                            cl.add(a & b)
                        elif len(u) == 1:
                            cl.add((a & b) | {('is', px, next(iter(u)))})
                        else:
                            cl.add((a & b) | {('isin', px, tuple(sorted(u)))})
                        changed = True
                        break
                    if complementary(x, y):
                        m = merge_atoms(x, y)
                        cl.discard(a)
                        cl.discard(b)
                        cl.add((a & b) | ({m} if m else set()))
                        changed = True
                        break
            if changed:
                break
    return cl


def complementary(x, y):
    if x[0] == 'bool' and y[0] == 'bool' and x[1] == y[1] and x[2] != y[2]:
        return True
    if x[0] == 'cmp' and y[0] == 'cmp' and x[1:3] == y[1:3]:
        return True
    return False


def merge_atoms(x, y):
    if x[0] == 'cmp':
        rel = x[3] | y[3]
        if rel == frozenset(ALL):
            return None
        return ('cmp', x[1], x[2], rel)
    return None


def show(atom):
    if atom[0] == 'cmp':
        rel = ''.join(sorted(atom[3]))
        return '%s {%s} %s' % (atom[1], rel, atom[2])
    if atom[0] == 'bool':
        return ('' if atom[2] else '!') + atom[1]
    if atom[0] == 'is':
        return '%s is %s' % (atom[1], atom[2])
    if atom[0] == 'isnot':
        return '%s not in %s' % (atom[1], list(atom[2]))
    return str(atom)


def show_dnf(dnf):
    return sorted(' & '.join(sorted(show(a) for a in c)) or 'true' for c in dnf)
