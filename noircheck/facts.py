"""Fact loading and CFG utilities over the JSON written by /verif/factgen.

Nothing here executes the analysed program: every function works on the type-checked MIR facts
(blocks, statements, terminators, resolved callees, ADT / impl tables).
"""
import json
import os
import re
from collections import defaultdict

SE = 'renoir::operator::StreamElement'
SE_VARIANTS = ['Item', 'Timestamped', 'Watermark', 'FlushBatch', 'Terminate', 'FlushAndRestart']


class AnchorMissing(Exception):
    """An anchor a rule needs no longer resolves: the check is inconclusive (exit 2)."""


# ----------------------------------------------------------------------------------------------
# places / operands helpers (JSON shapes are documented in factgen/src/main.rs)

def op_place(op):
    """place of a copy/move operand, else None"""
    if op and op[0] in ('c', 'm'):
        return op[1]
    return None


def op_const(op):
    if op and op[0] == 'k':
        return op[1]
    return None


def op_fn(op):
    """def path of a function item passed as a value"""
    if op and op[0] == 'k' and len(op) > 3:
        return op[3]
    return None


def place_local(pl):
    return pl[0]


def is_local(pl):
    return len(pl) == 1


def place_fields(pl):
    """names of the Field projections, in order"""
    return [e[2] for e in pl[1:] if isinstance(e, list) and e[0] == 'f']


def self_field(pl):
    """'(*_1).name...' -> first field name if the place is rooted at *self (local 1), else None"""
    if len(pl) >= 3 and pl[0] == 1 and pl[1] == '*' and isinstance(pl[2], list) and pl[2][0] == 'f':
        return pl[2][2]
    return None


def place_str(pl):
    s = '_%d' % pl[0]
    for e in pl[1:]:
        if e == '*':
            s = '(*%s)' % s
        elif e[0] == 'f':
            s = '%s.%s' % (s, e[2])
        elif e[0] == 'd':
            s = '(%s as %s)' % (s, e[1])
        elif e[0] == 'i':
            s = '%s[_%d]' % (s, e[1])
        else:
            s = '%s[..]' % s
    return s


def op_str(op):
    if op is None:
        return '?'
    if op[0] == 'k':
        return 'const %s' % op[1]
    return ('move ' if op[0] == 'm' else '') + place_str(op[1])


def pkey(pl):
    """hashable key of a place"""
    return json.dumps(pl, separators=(',', ':'))


# ----------------------------------------------------------------------------------------------

SCRAMBLE_LOCALS = os.environ.get('NOIR_SCRAMBLE_LOCALS') == '1'


class Fn:
    def __init__(self, raw, crate):
        self.raw = raw
        self.crate = crate
        self.path = raw['path']
        self.kind = raw['kind']
        self.name = raw['name']
        self.parent = raw.get('parent')
        self.root = raw.get('root', raw['path'])
        self.at = raw['at']
        self.file = self.at.rsplit(':', 2)[0]
        self.argc = raw['argc']
        self.locals = raw['locals']
        self.blocks = raw['blocks']
        self.impl_adt = raw.get('impl_adt')
        self.impl_self = raw.get('impl_self')
        self.impl_trait = raw.get('impl_trait')
        self.in_trait = raw.get('in_trait')
        self.is_pub = raw.get('pub', False)
        self.is_unsafe = raw.get('unsafe', False)
        self.sig = raw.get('sig', '')
        self.vars = raw.get('vars', [])
        if SCRAMBLE_LOCALS:
            # self-test of the rules (NOIR_SCRAMBLE_LOCALS=1): every local / parameter gets another name, as if a maintainer had
            # renamed them consistently; no rule may depend on such a name
            import hashlib
            self.vars = [[n if n == 'self' else 'v' + hashlib.md5(n.encode()).hexdigest()[:6], pl] for n, pl in self.vars]
        self._succ = None
        self._pred = None
        self._dom = None
        self._pdom = None
        self._defs = None
        self._reach = {}
        self._live = None

    def __repr__(self):
        return '<Fn %s>' % self.path

    # --- naming
    def var_name(self, local):
        for n, pl in self.vars:
            if pl == [local]:
                return n
        return None

    def local_ty(self, local):
        return self.locals[local]['ty']

    def local_adt(self, local):
        return self.locals[local].get('adt')

    def place_ty_hint(self, pl):
        if is_local(pl):
            return self.local_ty(pl[0])
        return None

    # --- CFG (normal edges only; cleanup blocks are excluded)
    def succ(self, b):
        if self._succ is None:
            self._succ = []
            for blk in self.blocks:
                t = blk['t']
                k = t['t']
                if k == 'goto':
                    s = [t['target']]
                elif k == 'switch':
                    s = []
                    for _, tb in t['targets']:
                        if tb not in s:
                            s.append(tb)
                    if t['otherwise'] not in s:
                        s.append(t['otherwise'])
                elif k in ('call',):
                    s = [t['target']] if t['target'] is not None else []
                elif k in ('drop', 'assert'):
                    s = [t['target']]
                elif k == 'other':
                    s = list(t.get('succ', []))
                else:
                    s = []
                self._succ.append(s)
        return self._succ[b]

    def pred(self, b):
        if self._pred is None:
            self._pred = [[] for _ in self.blocks]
            for i in range(len(self.blocks)):
                if self.blocks[i]['cleanup']:
                    continue
                for s in self.succ(i):
                    self._pred[s].append(i)
        return self._pred[b]

    def term(self, b):
        return self.blocks[b]['t']

    def stmts(self, b):
        return self.blocks[b]['s']

    def normal_blocks(self):
        return [i for i, b in enumerate(self.blocks) if not b['cleanup']]

    def reachable_from(self, start, avoid=()):
        """blocks reachable from `start` (inclusive) along normal edges without entering `avoid`"""
        key = (start, tuple(sorted(avoid)))
        if key in self._reach:
            return self._reach[key]
        seen = set()
        avoid = set(avoid)
        st = [start]
        while st:
            b = st.pop()
            if b in seen or b in avoid:
                continue
            seen.add(b)
            st.extend(self.succ(b))
        self._reach[key] = seen
        return seen

    def return_blocks(self):
        return [i for i in self.normal_blocks() if self.term(i)['t'] == 'return']

    def dominators(self):
        """dom[b] = set of blocks that dominate b (normal edges, entry 0)"""
        if self._dom is None:
            nodes = sorted(self.reachable_from(0))
            allset = set(nodes)
            dom = {n: set(allset) for n in nodes}
            dom[0] = {0}
            changed = True
            order = nodes
            while changed:
                changed = False
                for n in order:
                    if n == 0:
                        continue
                    ps = [p for p in self.pred(n) if p in dom]
                    if not ps:
                        new = {n}
                    else:
                        new = set.intersection(*[dom[p] for p in ps]) | {n}
                    if new != dom[n]:
                        dom[n] = new
                        changed = True
            self._dom = dom
        return self._dom

    def dominates(self, a, b):
        d = self.dominators()
        return b in d and a in d[b]

    def post_dominators(self):
        """pdom[b] = blocks that post-dominate b w.r.t. `return` exits (diverging paths ignored)"""
        if self._pdom is None:
            rets = self.return_blocks()
            # nodes that can reach a return
            can = set()
            st = list(rets)
            while st:
                b = st.pop()
                if b in can:
                    continue
                can.add(b)
                st.extend(p for p in self.pred(b))
            nodes = sorted(can)
            pd = {n: set(nodes) for n in nodes}
            for r in rets:
                pd[r] = {r}
            changed = True
            while changed:
                changed = False
                for n in nodes:
                    if n in rets:
                        continue
                    ss = [s for s in self.succ(n) if s in pd]
                    if not ss:
                        new = {n}
                    else:
                        new = set.intersection(*[pd[s] for s in ss]) | {n}
                    if new != pd[n]:
                        pd[n] = new
                        changed = True
            self._pdom = pd
        return self._pdom

    def post_dominates(self, a, b):
        pd = self.post_dominators()
        return b in pd and a in pd[b]

    # --- definitions
    def defs(self):
        """local -> list of (block, stmt index or 'T') that assign the *whole* local"""
        if self._defs is None:
            d = defaultdict(list)
            for bi, blk in enumerate(self.blocks):
                for si, s in enumerate(blk['s']):
                    if s['k'] == 'assign' and is_local(s['lhs']):
                        d[s['lhs'][0]].append((bi, si))
                t = blk['t']
                if t['t'] == 'call' and is_local(t['dest']):
                    d[t['dest'][0]].append((bi, 'T'))
            self._defs = d
        return self._defs

    def single_def(self, local):
        ds = [x for x in self.defs().get(local, []) if not self.blocks[x[0]]['cleanup']]
        if len(ds) == 1:
            return ds[0]
        return None

    def def_node(self, d):
        bi, si = d
        if si == 'T':
            return self.blocks[bi]['t']
        return self.blocks[bi]['s'][si]

    # --- liveness of locals (backward may-analysis over normal edges)
    def live_in(self):
        if getattr(self, '_live', None) is not None:
            return self._live

        def op_uses(op, acc):
            if op and op[0] in ('c', 'm'):
                pl_uses(op[1], acc)

        def pl_uses(pl, acc):
            acc.add(pl[0])
            for e in pl[1:]:
                if isinstance(e, list) and e[0] == 'i':
                    acc.add(e[1])

        def rv_uses(rv, acc):
            r = rv['r']
            if r in ('use', 'repeat'):
                op_uses(rv['o'], acc)
            elif r in ('ref', 'rawptr', 'discr'):
                pl_uses(rv['p'], acc)
            elif r == 'bin':
                op_uses(rv['a'], acc)
                op_uses(rv['b'], acc)
            elif r == 'un':
                op_uses(rv['a'], acc)
            elif r == 'cast':
                op_uses(rv['o'], acc)
            elif r == 'agg':
                for o in rv['o']:
                    op_uses(o, acc)
            else:
                # unknown rvalue: be conservative, nothing known -> mark everything live via flag
                acc.add(-1)

        n = len(self.blocks)
        use = [set() for _ in range(n)]
        dfn = [set() for _ in range(n)]
        for bi, blk in enumerate(self.blocks):
            u, d = use[bi], dfn[bi]
            for s in blk['s']:
                acc = set()
                if s['k'] == 'assign':
                    rv_uses(s['rv'], acc)
                lhs = s['lhs']
                if not is_local(lhs):
                    pl_uses(lhs, acc)
                for x in acc:
                    if x not in d:
                        u.add(x)
                if is_local(lhs):
                    d.add(lhs[0])
            t = blk['t']
            acc = set()
            k = t['t']
            if k == 'switch':
                op_uses(t['discr'], acc)
            elif k == 'call':
                for a in t['args']:
                    op_uses(a, acc)
                if t['callee'].get('place'):
                    pl_uses(t['callee']['place'], acc)
                if not is_local(t['dest']):
                    pl_uses(t['dest'], acc)
            elif k == 'drop':
                pl_uses(t['p'], acc)
            elif k == 'assert':
                op_uses(t['cond'], acc)
            elif k == 'return':
                acc.add(0)
            elif k == 'other':
                acc.add(-1)
            for x in acc:
                if x not in d:
                    u.add(x)
            if k == 'call' and is_local(t['dest']):
                d.add(t['dest'][0])
        live = [set() for _ in range(n)]
        changed = True
        while changed:
            changed = False
            for bi in range(n - 1, -1, -1):
                out = set()
                for sb in self.succ(bi):
                    out |= live[sb]
                new = use[bi] | (out - dfn[bi])
                if new != live[bi]:
                    live[bi] = new
                    changed = True
        self._live = live
        return live

    # --- uses
    def uses_of(self, local):
        """list of (block, kind) where the local is read: kind in rhs|arg|switch|drop|assert|lhs-proj|ret"""
        out = []

        def in_op(op):
            return bool(op) and op[0] in ('c', 'm') and (op[1][0] == local or any(isinstance(e, list) and e[0] == 'i' and e[1] == local for e in op[1][1:]))

        def in_pl(pl):
            return pl[0] == local

        for bi, blk in enumerate(self.blocks):
            if blk['cleanup']:
                continue
            for s in blk['s']:
                if s['k'] == 'assign':
                    rv = s['rv']
                    r = rv['r']
                    hit = False
                    if r in ('use', 'repeat', 'cast'):
                        hit = in_op(rv['o'])
                    elif r in ('ref', 'rawptr', 'discr'):
                        hit = in_pl(rv['p'])
                    elif r == 'bin':
                        hit = in_op(rv['a']) or in_op(rv['b'])
                    elif r == 'un':
                        hit = in_op(rv['a'])
                    elif r == 'agg':
                        hit = any(in_op(o) for o in rv['o'])
                    if hit:
                        out.append((bi, 'rhs'))
                if not is_local(s['lhs']) and s['lhs'][0] == local:
                    out.append((bi, 'lhs-proj'))
            t = blk['t']
            k = t['t']
            if k == 'switch' and in_op(t['discr']):
                out.append((bi, 'switch'))
            elif k == 'call':
                if any(in_op(a) for a in t['args']):
                    out.append((bi, 'arg'))
                if t['callee'].get('place') and in_pl(t['callee']['place']):
                    out.append((bi, 'arg'))
            elif k == 'drop' and in_pl(t['p']):
                out.append((bi, 'drop'))
            elif k == 'assert' and in_op(t['cond']):
                out.append((bi, 'assert'))
            elif k == 'return' and local == 0:
                out.append((bi, 'ret'))
        return out

    def result_discarded(self, call_block):
        """the value returned by the call terminating `call_block` is never read (only dropped)"""
        t = self.blocks[call_block]['t']
        d = t['dest']
        if not is_local(d):
            return False
        if d[0] == 0:
            return False
        return all(k == 'drop' for _, k in self.uses_of(d[0]))

    # --- calls
    def calls(self, include_cleanup=False):
        for bi, blk in enumerate(self.blocks):
            if blk['cleanup'] and not include_cleanup:
                continue
            t = blk['t']
            if t['t'] == 'call':
                yield bi, t

    def calls_to(self, pred, include_cleanup=False):
        for bi, t in self.calls(include_cleanup):
            if pred(t['callee']):
                yield bi, t


def callee_path(c):
    return c.get('path') or ''


def callee_resolved(c):
    return c.get('resolved') or c.get('path') or ''


def callee_matches(c, *names):
    """match def path (generic, unresolved) or resolved path against exact names or suffixes"""
    p1 = c.get('path') or ''
    p2 = c.get('resolved') or ''
    for n in names:
        if p1 == n or p2 == n:
            return True
    return False


class Facts:
    def __init__(self, files):
        self.crates = []
        self.fns = []
        self.adts = {}
        self.impls = []
        self.consts = {}
        self.traits = {}
        self.rustc = None
        for f in files:
            txt = open(f).read()
            head = json.loads(txt[:200].split(',"adts"')[0] + '}') if False else None
            raw = json.loads(txt)
            cn = raw['crate']
            if 'crate::' in txt:
                raw = json.loads(txt.replace('crate::', cn + '::'))
            self.rustc = raw.get('rustc')
            self.crates.append({'crate': cn, 'test': raw['test'], 'file': f, 'fns': len(raw['fns'])})
            for a in raw['adts']:
                self.adts.setdefault(a['path'], a)
            for i in raw['impls']:
                i['crate'] = cn
                self.impls.append(i)
            for c in raw['consts']:
                self.consts.setdefault(c['path'], c)
            for t in raw['traits']:
                self.traits.setdefault(t['path'], t)
            for fr in raw['fns']:
                self.fns.append(Fn(fr, cn + ('-test' if raw['test'] else '')))
        self.by_path = defaultdict(list)
        for f in self.fns:
            self.by_path[f.path].append(f)
        self._callers = None

    # --- lookup
    def fn(self, path, required=True):
        l = self.by_path.get(path)
        if not l:
            if required:
                raise AnchorMissing('function %s not found' % path)
            return None
        return self._v(l[0])

    def fns_where(self, pred):
        return [f for f in self.fns if pred(f)]

    def lib_fns(self):
        return [f for f in self.fns if f.crate == 'renoir']

    def find(self, regex, required=True, lib_only=True):
        r = re.compile(regex)
        out = [f for f in self.fns if r.search(f.path) and (not lib_only or f.crate == 'renoir')]
        if not out and required:
            raise AnchorMissing('no function matches /%s/' % regex)
        return [self._v(f) for f in out]

    def one(self, regex):
        out = self.find(regex)
        if len(out) != 1:
            raise AnchorMissing('expected exactly one function matching /%s/, found %d: %s'
                                % (regex, len(out), [f.path for f in out][:5]))
        return out[0]

    def method(self, adt, name, trait=None, required=True):
        """the body of method `name` in an impl block whose self ADT is `adt`"""
        out = [f for f in self.fns if f.crate == 'renoir' and f.impl_adt == adt and f.name == name
               and f.kind == 'assoc' and (trait is None or f.impl_trait == trait)]
        if not out:
            if required:
                raise AnchorMissing('method %s::%s not found' % (adt, name))
            return None
        if len(out) > 1 and trait is None:
            inh = [f for f in out if not f.impl_trait]
            if len(inh) == 1:
                return self._v(inh[0])
        return self._v(out[0])

    def impls_of(self, trait, lib_only=True):
        return [i for i in self.impls if i.get('trait') == trait and (not lib_only or i['crate'] == 'renoir')]

    def impl_methods(self, trait, name, lib_only=True):
        """all bodies of `name` in impls of `trait`"""
        out = []
        for f in self.fns:
            if lib_only and f.crate != 'renoir':
                continue
            if f.kind == 'assoc' and f.impl_trait == trait and f.name == name:
                out.append(self._v(f))
        return out

    def closures_of(self, fn):
        """closure bodies whose typeck root is `fn` (same crate); for an inlined view also those of the inlined helpers"""
        roots = {fn.path} | set(getattr(fn, 'inlined_from', ()))
        out = [g for g in self.fns if g.kind == 'closure' and g.root in roots and g.crate == fn.crate]
        if self.auto_inline and fn.crate == 'renoir':
            # a closure that calls a private helper of the enclosing type (`(0..k).for_each(|i| self.update_slot(i, ..))`) is handed
            # out with that helper expanded, like the enclosing function itself
            out = [self.inl(g, mode='all') for g in out]
        return out

    auto_inline = os.environ.get('NOIR_INLINE', '1') != '0'

    def _v(self, fn):
        """the view handed to rules by the lookup functions: private same-type / same-module helpers inlined"""
        if fn is not None:
            self.__dict__.setdefault('touched', set()).add(fn.path)
        if fn is None or not self.auto_inline or fn.crate != 'renoir' or getattr(fn, 'original', None) is not None:
            return fn
        v = self.inl(fn, mode='self')
        self.touched.update(getattr(v, 'inlined_from', ()))
        return v

    def inl(self, fn, mode='all'):
        """the view of `fn` with private same-type / same-module helpers inlined (see inline.py); cached"""
        c = self.__dict__.setdefault('_inl_cache', {})
        k = (id(fn), mode)
        if k not in c:
            from .inline import inline_fn
            c[k] = (fn, inline_fn(self, fn, mode=mode))
        return c[k][1]

    def family(self, fn):
        return [fn] + self.closures_of(fn)

    def adt(self, path, required=True):
        a = self.adts.get(path)
        if a is None and required:
            raise AnchorMissing('ADT %s not found' % path)
        return a

    def adt_has_impl(self, adt, trait):
        return any(i.get('self_adt') == adt and i.get('trait') == trait for i in self.impls)

    def variants(self, adt):
        return [v['name'] for v in self.adt(adt)['variants']]

    def callers(self):
        """callee def path (generic and resolved) -> list of (Fn, block)"""
        if self._callers is None:
            c = defaultdict(list)
            for f in self.fns:
                for bi, t in f.calls(include_cleanup=True):
                    ce = t['callee']
                    seen = set()
                    for k in ('path', 'resolved'):
                        p = ce.get(k)
                        if p and p not in seen:
                            seen.add(p)
                            c[p].append((f, bi))
            self._callers = c
        return self._callers

    def callers_of(self, path, lib_only=True):
        return [(f, bi) for f, bi in self.callers().get(path, []) if not lib_only or f.crate == 'renoir']


def load_dir(d):
    files = sorted(os.path.join(d, x) for x in os.listdir(d) if x.endswith('.json'))
    if not files:
        raise AnchorMissing('no fact files in %s' % d)
    return Facts(files)
