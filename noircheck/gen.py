"""Fact generation: runs the factgen driver over /repo's *current working tree* (cached by content hash)."""
import fcntl
import hashlib
import os
import shutil
import subprocess
import sys
import time

VERIF = os.path.dirname(os.path.dirname(os.path.abspath(__file__)))
REPO = os.environ.get('NOIR_REPO', '/repo')
WORK = os.path.join(VERIF, '.work')
DRIVER = os.path.join(VERIF, 'factgen', 'target', 'release', 'factgen')
RUSTFLAGS = '-Zmir-opt-level=0 -Awarnings'


def tree_hash(repo=REPO):
    h = hashlib.sha256()
    roots = ['src', 'tests', 'examples', 'benches']
    files = []
    for r in roots:
        for dp, dn, fn in os.walk(os.path.join(repo, r)):
            dn.sort()
            for f in sorted(fn):
                files.append(os.path.join(dp, f))
    for f in ['Cargo.toml', 'Cargo.lock']:
        files.append(os.path.join(repo, f))
    for f in sorted(files):
        if not os.path.isfile(f):
            continue
        h.update(os.path.relpath(f, repo).encode())
        h.update(b'\0')
        with open(f, 'rb') as fh:
            h.update(fh.read())
        h.update(b'\0')
    # the driver is part of the key: a rebuilt driver regenerates facts
    if os.path.exists(DRIVER):
        st = os.stat(DRIVER)
        h.update(('%d-%d' % (st.st_size, int(st.st_mtime))).encode())
    return h.hexdigest()[:20]


def sysroot_lib():
    out = subprocess.run(['rustc', '+nightly', '--print', 'sysroot'], capture_output=True, text=True, check=True)
    return os.path.join(out.stdout.strip(), 'lib')


def build_driver():
    if os.path.exists(DRIVER):
        src = os.path.join(VERIF, 'factgen', 'src', 'main.rs')
        if os.stat(src).st_mtime <= os.stat(DRIVER).st_mtime:
            return
    env = dict(os.environ, CARGO_NET_OFFLINE='true')
    r = subprocess.run(['cargo', 'build', '--release', '--offline'], cwd=os.path.join(VERIF, 'factgen'), env=env,
                       capture_output=True, text=True)
    if r.returncode != 0:
        sys.stderr.write(r.stdout + r.stderr)
        raise SystemExit(3)


def cargo_env(out_dir, target):
    env = dict(os.environ)
    env.update({
        'CARGO_NET_OFFLINE': 'true',
        'LD_LIBRARY_PATH': sysroot_lib() + ':' + env.get('LD_LIBRARY_PATH', ''),
        'RUSTFLAGS': RUSTFLAGS,
        'FACTGEN_OUT': out_dir,
        'RUSTC_WORKSPACE_WRAPPER': DRIVER,
        'CARGO_TARGET_DIR': target,
    })
    env.pop('RUSTC_WRAPPER', None)
    return env


def generate(scope='lib', repo=REPO, quiet=True):
    """scope: 'lib' (cargo check --lib) or 'all' (cargo check --all-targets).
    returns (facts dir, meta) ; raises SystemExit(2) when /repo does not compile"""
    os.makedirs(WORK, exist_ok=True)
    build_driver()
    t0 = time.time()
    th = tree_hash(repo)
    cache = os.path.join(WORK, 'facts', '%s-%s' % (scope, th))
    meta = {'scope': scope, 'tree_hash': th, 'features': 'default (clap, ssh, timestamp)',
            'rustflags': RUSTFLAGS, 'cached': True, 'repo': repo}
    lock = open(os.path.join(WORK, 'lock'), 'w')
    fcntl.flock(lock, fcntl.LOCK_EX)
    try:
        if os.path.exists(os.path.join(cache, 'OK')):
            meta['factgen_wall_s'] = 0.0
            return cache, meta
        meta['cached'] = False
        tmp = cache + '.tmp'
        shutil.rmtree(tmp, ignore_errors=True)
        os.makedirs(tmp)
        target = os.path.join(WORK, 'target')
        # cargo's freshness cache would skip the wrapper: drop the workspace member's fingerprints
        fp = os.path.join(target, 'debug', '.fingerprint')
        if os.path.isdir(fp):
            for d in os.listdir(fp):
                if d.startswith('renoir-'):
                    shutil.rmtree(os.path.join(fp, d), ignore_errors=True)
        cmd = ['cargo', '+nightly', 'check', '--offline']
        cmd += ['--lib'] if scope == 'lib' else ['--all-targets']
        r = subprocess.run(cmd, cwd=repo, env=cargo_env(tmp, target), capture_output=True, text=True)
        if r.returncode != 0:
            sys.stderr.write(r.stderr[-6000:])
            print('INCONCLUSIVE: /repo does not compile with the nightly driver (%s)' % ' '.join(cmd))
            raise SystemExit(2)
        files = [x for x in os.listdir(tmp) if x.endswith('.json')]
        if not any(x.startswith('renoir-') and not x.startswith('renoir-test') for x in files):
            print('INCONCLUSIVE: the driver produced no fact file for crate renoir (wrapper skipped?)')
            raise SystemExit(2)
        open(os.path.join(tmp, 'OK'), 'w').write(th)
        shutil.rmtree(cache, ignore_errors=True)
        os.rename(tmp, cache)
        # prune old caches (keep the 4 most recent)
        fd = os.path.join(WORK, 'facts')
        ds = sorted((os.path.join(fd, d) for d in os.listdir(fd) if not d.startswith('fixtures-')), key=lambda p: os.stat(p).st_mtime)
        for d in ds[:-4]:
            shutil.rmtree(d, ignore_errors=True)
        meta['factgen_wall_s'] = round(time.time() - t0, 2)
        return cache, meta
    finally:
        fcntl.flock(lock, fcntl.LOCK_UN)
        lock.close()


if __name__ == '__main__':
    d, m = generate(sys.argv[1] if len(sys.argv) > 1 else 'lib')
    print(d, m)


def generate_fixtures():
    """facts of /verif/fixtures (positive controls), cached by content hash; returns the fact directory"""
    os.makedirs(WORK, exist_ok=True)
    build_driver()
    fx = os.path.join(VERIF, 'fixtures')
    h = hashlib.sha256()
    for f in ('Cargo.toml', 'src/lib.rs', 'flume/Cargo.toml', 'flume/src/lib.rs'):
        h.update(open(os.path.join(fx, f), 'rb').read())
    st = os.stat(DRIVER)
    h.update(('%d-%d' % (st.st_size, int(st.st_mtime))).encode())
    cache = os.path.join(WORK, 'facts', 'fixtures-' + h.hexdigest()[:16])
    lock = open(os.path.join(WORK, 'lock-fx'), 'w')
    fcntl.flock(lock, fcntl.LOCK_EX)
    try:
        if os.path.exists(os.path.join(cache, 'OK')):
            return cache
        tmp = cache + '.tmp'
        shutil.rmtree(tmp, ignore_errors=True)
        os.makedirs(tmp)
        target = os.path.join(WORK, 'target-fx')
        shutil.rmtree(os.path.join(target, 'debug', '.fingerprint'), ignore_errors=True)
        r = subprocess.run(['cargo', '+nightly', 'check', '--offline', '--lib'], cwd=fx, env=cargo_env(tmp, target), capture_output=True, text=True)
        if r.returncode != 0 or not any(x.endswith('.json') for x in os.listdir(tmp)):
            sys.stderr.write(r.stderr[-3000:])
            print('INCONCLUSIVE: the positive-control fixture crate does not compile')
            raise SystemExit(2)
        open(os.path.join(tmp, 'OK'), 'w').write('ok')
        shutil.rmtree(cache, ignore_errors=True)
        os.rename(tmp, cache)
        return cache
    finally:
        fcntl.flock(lock, fcntl.LOCK_UN)
        lock.close()
