"""Rule registry, report / evidence writer, known findings, floors."""
import json
import os
import time
import traceback

from .facts import AnchorMissing

VERIF = os.path.dirname(os.path.dirname(os.path.abspath(__file__)))

RULES = {}  # property -> list of (rule id, title, fn, tiers)
# positive controls: (property, rule id) -> key fragments the rule MUST report on the fixture crate (/verif/fixtures)
CONTROLS = {
    ('C20', 'R1'): ['FlushOnDrop|drop-sends', 'Guard|drop-sends'],
    ('C20', 'R2'): ['swallow_send|swallowed', 'neutralise_send|swallowed'],
    ('C02', 'R2'): ['swallow_send|swallowed', 'neutralise_send|swallowed'],
    ('C20', 'R3'): ['ignore_join|join-unchecked'],
    ('C02', 'R8'): ['lossy_forward|lossy-send'],
    ('C02', 'R9'): ['forward_tail_first|tail-first'],
    ('C16', 'R5'): ['forward_tail_first|tail-first'],
}


def rule(prop, rid, title, tier='quick'):
    def deco(fn):
        RULES.setdefault(prop, []).append((rid, title, fn, tier))
        return fn
    return deco


class Inconclusive(Exception):
    pass


class Ctx:
    """what a rule sees: facts + reporting"""

    def __init__(self, prop, rid, facts, report, tier, fixtures=None):
        self.prop = prop
        self.rid = rid
        self.facts = facts
        self.report = report
        self.tier = tier
        self.fixtures = fixtures

    def inst(self, site, sample=None, nontrivial=True):
        """record one evaluated rule instance (a function, a call site, a table row ...)"""
        self.report.inst(self.rid, site, sample, nontrivial)

    def viol(self, key, at, msg, detail=None):
        """key: stable identification without line numbers: '<fn path>|<callee/arm/field>'"""
        self.report.viol(self.rid, key, at, msg, detail)

    def note(self, text):
        self.report.note(self.rid, text)

    def exception(self, key, reason):
        self.report.exception(self.rid, key, reason)

    def count(self, name, n=1):
        self.report.count(name, n)


class Report:
    def __init__(self, prop, tier, seed):
        self.prop = prop
        self.tier = tier
        self.seed = seed
        self.instances = {}  # rid -> {site: nontrivial}
        self.samples = []
        self.sample_per_rule = {}
        self.violations = []
        self.notes = []
        self.exceptions = []
        self.inconclusive = []
        self.counts = {}
        self.rule_titles = {}
        self.t0 = time.time()

    def inst(self, rid, site, sample, nontrivial):
        d = self.instances.setdefault(rid, {})
        d[site] = d.get(site, False) or nontrivial
        if sample is not None and self.sample_per_rule.get(rid, 0) < 3:
            self.sample_per_rule[rid] = self.sample_per_rule.get(rid, 0) + 1
            self.samples.append({'rule': '%s.%s' % (self.prop, rid), 'site': site, 'observed': sample})

    def viol(self, rid, key, at, msg, detail):
        full = '%s|%s|%s' % (self.prop, rid, key)
        for v in self.violations:
            if v['key'] == full:
                return
        self.violations.append({'key': full, 'rule': '%s.%s' % (self.prop, rid), 'at': at, 'msg': msg,
                                'detail': detail})

    def note(self, rid, text):
        self.notes.append('%s.%s: %s' % (self.prop, rid, text))

    def exception(self, rid, key, reason):
        self.exceptions.append({'rule': '%s.%s' % (self.prop, rid), 'key': key, 'reason': reason})

    def count(self, name, n):
        self.counts[name] = self.counts.get(name, 0) + n


def load_known():
    p = os.path.join(VERIF, 'known_findings.json')
    if not os.path.exists(p):
        return {'findings': [], 'fixed': []}
    return json.load(open(p))


def load_floors():
    p = os.path.join(VERIF, 'noircheck', 'floors.json')
    if not os.path.exists(p):
        return {}
    return json.load(open(p))


def run_property(prop, facts, tier, seed, meta, fixtures=None, only_rule=None):
    """returns exit code; prints VIOLATION / KNOWN-FINDING lines; writes evidence"""
    from . import rules  # noqa: F401  (registers rules)
    rep = Report(prop, tier, seed)
    rl = RULES.get(prop, [])
    if not rl:
        print('no rules registered for %s' % prop)
        return 2
    floors = load_floors()
    for rid, title, fn, rtier in rl:
        if rtier == 'thorough' and tier != 'thorough':
            continue
        if only_rule and rid != only_rule:
            continue
        rep.rule_titles[rid] = title
        ctx = Ctx(prop, rid, facts, rep, tier, fixtures)
        try:
            fn(ctx)
        except AnchorMissing as e:
            rep.inconclusive.append('%s.%s: anchor missing: %s' % (prop, rid, e))
        except Inconclusive as e:
            rep.inconclusive.append('%s.%s: %s' % (prop, rid, e))
        except Exception as e:  # a crashing rule must never look like a pass
            rep.inconclusive.append('%s.%s: rule crashed: %s\n%s' % (prop, rid, e, traceback.format_exc()))
        n = len(rep.instances.get(rid, {}))
        fl = floors.get('%s.%s' % (prop, rid))
        if fl is not None and n < fl and not only_rule:
            rep.inconclusive.append('%s.%s: %d instances analysed, below the floor %d counted on the pinned tree'
                                    % (prop, rid, n, fl))
        elif fl is None and n == 0:
            rep.inconclusive.append('%s.%s: matched zero instances (vacuous)' % (prop, rid))

    # positive controls for zero-expected rules: the same rule code must fire on the fixture crate
    controls_run = {}
    for rid, title, fn, rtier in rl:
        exp = CONTROLS.get((prop, rid))
        if not exp or (only_rule and rid != only_rule):
            continue
        try:
            from . import gen
            from .facts import load_dir
            fx = load_dir(gen.generate_fixtures())
            crep = Report(prop, tier, seed)
            cctx = Ctx(prop, rid, fx, crep, tier)
            try:
                fn(cctx)
            except Exception:
                pass
            keys = [v['key'] for v in crep.violations]
            missing = [e for e in exp if not any(e in k for k in keys)]
            controls_run['%s.%s' % (prop, rid)] = {'expected': exp, 'reported': keys}
            if missing:
                rep.inconclusive.append('%s.%s: positive control not reported on the fixture crate: %s (the rule is blind)' % (prop, rid, missing))
        except SystemExit:
            rep.inconclusive.append('%s.%s: positive-control fixture unavailable' % (prop, rid))

    known = load_known()
    known_keys = {k['key']: k for k in known.get('findings', [])}
    new_viol = []
    known_hit = []
    for v in rep.violations:
        if v['key'] in known_keys:
            known_hit.append(v)
        else:
            new_viol.append(v)

    ev_dir = os.path.join(VERIF, 'evidence')
    rp_dir = os.path.join(ev_dir, 'replay')
    os.makedirs(rp_dir, exist_ok=True)
    for v in known_hit:
        print('KNOWN-FINDING: property=%s %s %s (%s)' % (prop, v['key'], known_keys[v['key']].get('what', v['msg']), v['at']))
    for i, v in enumerate(new_viol):
        path = os.path.join(rp_dir, '%s-%d.json' % (prop, i))
        json.dump({'property': prop, 'rule': v['rule'], 'key': v['key'], 'at': v['at'], 'msg': v['msg'],
                   'detail': v['detail'], 'tier': tier,
                   'replay': 'bin/check %s --replay %s' % (prop, path)}, open(path, 'w'), indent=1)
        print('  %s at %s: %s' % (v['rule'], v['at'], v['msg']))
        print('VIOLATION property=%s replay=%s' % (prop, path))
    for m in rep.inconclusive:
        print('INCONCLUSIVE: %s' % m)

    evaluations = sum(len(d) for d in rep.instances.values())
    nontrivial = sum(1 for d in rep.instances.values() for s, nt in d.items() if nt)
    per_rule = {('%s.%s' % (prop, rid)): {'title': rep.rule_titles.get(rid, ''), 'instances': len(d),
                                          'floor': floors.get('%s.%s' % (prop, rid))}
                for rid, d in rep.instances.items()}
    for rid, t in rep.rule_titles.items():
        per_rule.setdefault('%s.%s' % (prop, rid), {'title': t, 'instances': 0,
                                                    'floor': floors.get('%s.%s' % (prop, rid))})
    from .claims import CLAIMS
    cl = CLAIMS.get(prop, {})
    cov = {
        'explanation': cl.get('explanation', ''),
        'decides': cl.get('decides', ''),
        'not_decided': cl.get('not_decided', ''),
        'evaluations': evaluations,
        'distinct_nontrivial': nontrivial,
        'rule': 'one evaluation = one (rule, site) instance: a function body, call site, switch edge, '
                'field or table row selected by role from the MIR facts of the current /repo tree; '
                'non-trivial = the instance examined at least one real CFG path or call site '
                '(instances that only confirm absence, e.g. "type has no Clone impl", are counted trivial)',
        'samples': rep.samples[:12] if rep.samples else [{'note': 'no sample recorded'}],
        'per_rule': per_rule,
        'counts': rep.counts,
        'exceptions': rep.exceptions,
        'notes': rep.notes,
        'known_findings_present': [v['key'] for v in known_hit],
        'positive_controls': controls_run,
        'inconclusive': rep.inconclusive,
        'config': meta,
        'exhaustive': False,
    }
    ev = {
        'property_id': prop,
        'tier': tier,
        'seed': seed,
        'level': 'other',
        'coverage': cov,
        'assumptions': cl.get('assumptions', []) + [
            'only the default feature set (clap, ssh, timestamp) compiles on the pinned tree and is analysed; '
            'src/network/tokio/*, map_async*, async_stream and cfg(not(feature="timestamp")) arms are outside',
            'rustc type checking / MIR construction, flume FIFO channels, TCP ordering, bincode, std collections are trusted',
            'static analysis of MIR facts only: no code of /repo is executed; exit 0 means the listed structural clauses hold, '
            'not that the behavioural property holds for every input/schedule',
        ],
        'wall_s': round(time.time() - rep.t0 + meta.get('factgen_wall_s', 0.0), 3),
        'violations': len(new_viol),
    }
    json.dump(ev, open(os.path.join(ev_dir, '%s.json' % prop), 'w'), indent=1)
    if new_viol:
        return 1
    if rep.inconclusive:
        return 2
    print('OK property=%s tier=%s rules=%d instances=%d known_findings=%d' % (
        prop, tier, len(rep.rule_titles), evaluations, len(known_hit)))
    return 0
