"""Provenance / symbolic description of MIR operands by following single-definition chains.

A value is described by a nested tuple:
  ('const', text) ('arg', index, name) ('self',) ('local', n)          -- roots
  ('field', base, name) ('deref', base) ('variant', base, Variant) ('index', base)
  ('ref', x) ('call', callee path, (args...), resolved path) ('bin', op, a, b) ('un', op, a)
  ('cast', x) ('agg', kind/adt/variant, (operands...)) ('discr', x) ('phi', n) ('fn', path)
Nothing is evaluated.  `render` gives a stable, line-number free string used in rule keys and reports.
"""
from .facts import is_local


class Sym:
    def __init__(self, fn, max_depth=12, facts=None):
        self.fn = fn
        self.max_depth = max_depth
        self._memo = {}
        self.facts = facts
        self._caps = None

    def captures(self):
        """for a closure body: descriptions (in the parent function's terms) of the captured operands"""
        if self._caps is not None:
            return self._caps
        self._caps = {}
        fn = self.fn
        if fn.kind != 'closure' or self.facts is None:
            return self._caps
        parent = None
        for g in self.facts.by_path.get(fn.parent, []):
            if g.crate == fn.crate:
                parent = g
        if parent is None:
            return self._caps
        ps = Sym(parent, self.max_depth, self.facts)
        for blk in parent.blocks:
            for s in blk['s']:
                if s['k'] == 'assign' and s['rv']['r'] == 'agg' and s['rv']['k'] == 'closure' and s['rv'].get('def') == fn.path:
                    for i, o in enumerate(s['rv']['o']):
                        self._caps[i] = _outer(ps.operand(o, 2))
        return self._caps

    def local(self, n, depth=0, seen=()):
        fn = self.fn
        if n in seen or depth > self.max_depth:
            return ('local', n)
        if 1 <= n <= fn.argc:
            if n == 1 and fn.impl_adt and fn.locals[1].get('adt') == fn.impl_adt:
                return ('self',)
            # parameters are named by position (`arg2` = second parameter incl. self): rules must not depend on what a
            # maintainer calls them; the source name is kept for messages only (see q.pretty)
            return ('arg', n, 'arg%d' % n)
        d = fn.single_def(n)
        if d is None:
            ds = fn.defs().get(n, [])
            if not ds:
                return ('local', n)
            return ('phi', n)
        node = fn.def_node(d)
        seen = seen + (n,)
        if d[1] == 'T':
            c = node['callee']
            return ('call', c.get('path') or 'indirect', tuple(self.operand(a, depth + 1, seen) for a in node['args']),
                    c.get('resolved') or c.get('path') or 'indirect')
        return self.rvalue(node['rv'], depth + 1, seen)

    def phi_defs(self, n, depth=0):
        """all definitions of a multiply-defined local, described"""
        out = []
        for d in self.fn.defs().get(n, []):
            if self.fn.blocks[d[0]]['cleanup']:
                continue
            node = self.fn.def_node(d)
            if d[1] == 'T':
                c = node['callee']
                out.append(('call', c.get('path') or 'indirect', tuple(self.operand(a, depth + 1, (n,)) for a in node['args']),
                            c.get('resolved') or c.get('path') or 'indirect'))
            else:
                out.append(self.rvalue(node['rv'], depth + 1, (n,)))
        return out

    def place(self, pl, depth=0, seen=()):
        rest = pl[1:]
        base = None
        if self.fn.kind == 'closure' and pl[0] == 1 and self.facts is not None:
            caps = self.captures()
            k = None
            if len(pl) >= 3 and pl[1] == '*' and isinstance(pl[2], list) and pl[2][0] == 'f':
                k, rest = pl[2][1], pl[3:]
            elif len(pl) >= 2 and isinstance(pl[1], list) and pl[1][0] == 'f':
                k, rest = pl[1][1], pl[2:]
            if k is not None and k in caps:
                base = caps[k]
            else:
                rest = pl[1:]
        if base is None:
            base = self.local(pl[0], depth, seen)
        for e in rest:
            if e == '*':
                if base[0] == 'ref':
                    base = base[1]
                elif base[0] == 'self':
                    base = ('self',)
                else:
                    base = ('deref', base)
            elif e[0] == 'f':
                if base[0] == 'agg' and base[1][0] in ('tuple', 'adt', 'closure') and e[1] < len(base[2]) and base[1][0] != 'adt':
                    base = base[2][e[1]]
                else:
                    base = ('field', base, e[2])
            elif e[0] == 'd':
                base = ('variant', base, e[1])
            else:
                base = ('index', base)
        return base

    def operand(self, op, depth=0, seen=()):
        if op is None:
            return ('local', -1)
        if op[0] == 'k':
            if len(op) > 3:
                return ('fn', op[3])
            return ('const', op[1])
        return self.place(op[1], depth, seen)

    def rvalue(self, rv, depth=0, seen=()):
        r = rv['r']
        if r == 'use':
            return self.operand(rv['o'], depth, seen)
        if r in ('ref', 'rawptr'):
            p = self.place(rv['p'], depth, seen)
            return ('ref', p)
        if r == 'discr':
            return ('discr', self.place(rv['p'], depth, seen))
        if r == 'bin':
            return ('bin', rv['op'], self.operand(rv['a'], depth, seen), self.operand(rv['b'], depth, seen))
        if r == 'un':
            return ('un', rv['op'], self.operand(rv['a'], depth, seen))
        if r == 'cast':
            return ('cast', self.operand(rv['o'], depth, seen))
        if r == 'agg':
            if rv['k'] == 'adt':
                kind = ('adt', rv['adt'], rv['v'])
            elif rv['k'] == 'closure':
                kind = ('closure', rv['def'])
            else:
                kind = (rv['k'],)
            return ('agg', kind, tuple(self.operand(o, depth, seen) for o in rv['o']))
        if r == 'repeat':
            return ('agg', ('repeat',), (self.operand(rv['o'], depth, seen),))
        return ('other', rv.get('dbg', ''))


def strip(x):
    """drop refs / casts / derefs / clones / copies that do not change the value's identity"""
    while True:
        if x[0] in ('ref', 'cast', 'deref'):
            x = x[1]
        elif x[0] == 'call' and x[1] in ('std::clone::Clone::clone', 'std::borrow::Borrow::borrow',
                                          'std::convert::Into::into', 'std::convert::From::from',
                                          'std::ops::Deref::deref', 'std::ops::DerefMut::deref_mut',
                                          'std::convert::AsRef::as_ref', 'std::borrow::ToOwned::to_owned') and x[2]:
            x = x[2][0]
        else:
            return x


def _outer(t):
    """parameters of the enclosing function seen from inside a closure body: tagged ('parg', n, '^argN') so that they cannot be
    confused with the closure's own parameters (both are named by position)"""
    if isinstance(t, tuple):
        if len(t) == 3 and t[0] == 'arg' and isinstance(t[1], int):
            return ('parg', t[1], '^' + t[2])
        return tuple(_outer(x) for x in t)
    return t


def render(x, short=True):
    k = x[0]
    if k == 'const':
        return x[1]
    if k in ('arg', 'parg'):
        return x[2]
    if k == 'self':
        return 'self'
    if k == 'local':
        return '_%d' % x[1]
    if k == 'phi':
        return 'phi_%d' % x[1]
    if k == 'fn':
        return 'fn:' + (x[1].split('::')[-1] if short else x[1])
    if k == 'field':
        return '%s.%s' % (render(x[1], short), x[2])
    if k == 'deref':
        return '*' + render(x[1], short)
    if k == 'variant':
        return '(%s as %s)' % (render(x[1], short), x[2])
    if k == 'index':
        return render(x[1], short) + '[..]'
    if k == 'ref':
        return '&' + render(x[1], short)
    if k == 'call':
        name = x[1]
        if short:
            parts = name.split('::')
            name = '::'.join(parts[-2:]) if len(parts) > 1 else name
        return '%s(%s)' % (name, ', '.join(render(a, short) for a in x[2]))
    if k == 'bin':
        return '%s(%s, %s)' % (x[1], render(x[2], short), render(x[3], short))
    if k == 'un':
        return '%s(%s)' % (x[1], render(x[2], short))
    if k == 'cast':
        return render(x[1], short)
    if k == 'discr':
        return 'discr(%s)' % render(x[1], short)
    if k == 'agg':
        kind = x[1]
        if kind[0] == 'adt':
            return '%s::%s(%s)' % (kind[1].split('::')[-1], kind[2], ', '.join(render(a, short) for a in x[2]))
        if kind[0] == 'closure':
            return 'closure{%s}' % ', '.join(render(a, short) for a in x[2])
        return '(%s)' % ', '.join(render(a, short) for a in x[2])
    return '?'


def roots(x, out=None):
    """leaf roots of a description: self fields, args, consts, calls (as ('call', path))"""
    if out is None:
        out = set()
    k = x[0]
    if k in ('const', 'arg', 'parg', 'self', 'local', 'phi', 'fn'):
        out.add(x if k not in ('arg', 'parg') else (k, x[1]))
    elif k == 'field':
        b = x
        names = []
        while b[0] == 'field':
            names.append(b[2])
            b = b[1]
        b = strip(b)
        if b[0] == 'self':
            out.add(('selffield', names[-1]))
        else:
            roots(x[1], out)
    elif k in ('deref', 'ref', 'cast', 'discr', 'variant', 'index'):
        roots(x[1], out)
    elif k == 'un':
        roots(x[2], out)
    elif k == 'bin':
        roots(x[2], out)
        roots(x[3], out)
    elif k == 'call':
        out.add(('call', x[1]))
        for a in x[2]:
            roots(a, out)
    elif k == 'agg':
        for a in x[2]:
            roots(a, out)
    return out


def mentions_self_field(x, name):
    return ('selffield', name) in roots(x)


def find_calls(x, pred, out=None):
    if out is None:
        out = []
    if not isinstance(x, tuple):
        return out
    if x and x[0] == 'call' and pred(x):
        out.append(x)
    for y in x[1:]:
        if isinstance(y, tuple):
            if y and isinstance(y[0], str):
                find_calls(y, pred, out)
            else:
                for z in y:
                    if isinstance(z, tuple):
                        find_calls(z, pred, out)
    return out
