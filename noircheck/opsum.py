"""Operator automata (E1): the abstract state machine of an `Operator::next` implementation.

The automaton is the exploded graph of absint over *all* activations of `next`:
  - it starts in the self-state built by the operator's constructor(s),
  - a call that asks the upstream operator for an element (`<Prev as Operator>::next`) has one
    outgoing edge per StreamElement variant the stream protocol allows at that point (rely:
    upstream obeys ((Item|Timestamped|Watermark|FlushBatch)* FlushAndRestart)+ Terminate),
  - a `return` is followed by the next activation with the *self fields carried over,
  - helper methods of the same type that (transitively) ask for input are inlined by summary.
Protocol rules are reachability queries on this automaton.
"""
import json

from .facts import SE, SE_VARIANTS, pkey, is_local, self_field
from .absint import Interp, variant_summary, Bound, freeze

OP_TRAIT = 'renoir::operator::Operator'
OP_NEXT = 'renoir::operator::Operator::next'
K_IN = pkey(['$in'])     # protocol phase of the input: start | data | far | term
K_OUT = pkey(['$out'])   # what the operator returned last: none | data | far | term | unknown
SELF = [1, '*']

_cache = {}


def _memo(facts, name, fn):
    k = (id(facts), name)
    if k not in _cache:
        _cache[k] = fn()
    return _cache[k]


def se_summaries(facts):
    """variant-transfer summaries of crate functions enum -> StreamElement, derived from their MIR"""
    def build():
        out = {}
        for f in facts.lib_fns():
            if f.kind != 'assoc' or f.argc < 1:
                continue
            a1 = f.locals[1]
            arg_adt = a1.get('adt')
            if not arg_adt or arg_adt not in facts.adts or facts.adts[arg_adt]['kind'] != 'enum':
                continue
            rt = f.locals[0]['ty']
            direct = f.locals[0].get('adt') == SE and not rt.startswith('&')
            if not direct and not (rt.startswith('(') and SE + '<' in rt):
                continue
            try:
                s = variant_summary(facts, f, arg_adt, SE)
            except Bound:
                s = None
            if s:
                out[f.path] = s
        return out
    return _memo(facts, 'se_summaries', build)


def is_input_call(t):
    return t['t'] == 'call' and t['callee'].get('path') == OP_NEXT


def input_reaching_methods(facts, adt):
    """methods / closures of impl blocks of `adt` that (transitively) call Operator::next on upstream"""
    def build():
        fam = [f for f in facts.lib_fns() if f.impl_adt == adt]
        direct = {f.path for f in fam if any(is_input_call(t) for _, t in f.calls())}
        reach = set(direct)
        changed = True
        while changed:
            changed = False
            for f in fam:
                if f.path in reach:
                    continue
                for _, t in f.calls():
                    c = t['callee']
                    if c.get('path') in reach or c.get('resolved') in reach:
                        reach.add(f.path)
                        changed = True
                        break
        return reach
    return _memo(facts, 'irm:' + adt, build)


def closure_variants(facts, summaries):
    """callback for absint: variants returned by / pushed by a closure body"""
    memo = {}

    def cb(cdef, ret=False):
        key = (cdef, ret)
        if key in memo:
            return memo[key]
        memo[key] = None
        fn = facts.fn(cdef, required=False)
        if fn is None:
            return None
        it = Interp(facts, fn, summaries=summaries)
        it.closure_pushes = cb
        try:
            g = it.explore(0, {})
        except Bound:
            return None
        res = None
        if ret:
            if fn.locals[0].get('adt') != SE or fn.locals[0]['ty'].startswith('&'):
                return None
            res = set()
            for n in g.return_nodes():
                rv = g.ret_value(n)
                if rv and rv[0] == 'v':
                    res |= set(rv[1])
                else:
                    res = None
                    break
        else:
            res = set()
            found = False
            for n in g.done:
                b = g.block(n)
                t = fn.blocks[b]['t']
                if t['t'] != 'call':
                    continue
                p = t['callee'].get('path', '')
                full = t['callee'].get('full', '')
                if ('VecDeque' in p or p == 'std::iter::Extend::extend') and (SE + '<') in full:
                    m = p.rsplit('::', 1)[1]
                    st = g.pre_term.get(n, {})
                    if m == 'push_back':
                        found = True
                        a = it.eval_op(st, t['args'][1])
                        if a and a[0] == 'v':
                            res |= set(a[1])
                        else:
                            res |= set(SE_VARIANTS)
                    elif m == 'extend':
                        found = True
                        vs = None
                        for cd in t['callee'].get('gclosures', []):
                            r_ = cb(cd, ret=True)
                            if r_ is not None:
                                vs = (vs or set()) | r_
                        res |= vs if vs is not None else set(SE_VARIANTS)
                    elif m in ('push_front', 'insert', 'append'):
                        found = True
                        res |= set(SE_VARIANTS)
            if not found:
                res = None
        memo[key] = res
        return res
    return cb


def initial_self_state(facts, adt, summaries):
    """abstract values of the fields of `adt` as built by its constructors (every aggregate of the ADT
    outside Clone::clone).  Fields on which two constructors disagree are left unknown."""
    def build():
        sites = []
        for f in facts.lib_fns():
            if f.name == 'clone' and f.impl_trait == 'std::clone::Clone':
                continue
            if f.crate != 'renoir':
                continue
            has = False
            for blk in f.blocks:
                for s in blk['s']:
                    if s['k'] == 'assign' and s['rv']['r'] == 'agg' and s['rv'].get('adt') == adt:
                        has = True
            if not has:
                continue
            it = Interp(facts, f, summaries=summaries)
            try:
                g = it.explore(0, {})
            except Bound:
                continue
            for n in g.done:
                b = g.block(n)
                st = g.state(n)
                for s in f.blocks[b]['s']:
                    if s['k'] == 'assign' and s['rv']['r'] == 'agg' and s['rv'].get('adt') == adt:
                        vals = {}
                        for i, o in enumerate(s['rv']['o']):
                            v = it.eval_op(st, o)
                            name = s['rv']['fields'][i]
                            if v and v[0] in ('c', 'v', 'q', 'e'):
                                vals[name] = v
                            elif v and v[0] == 'v':
                                vals[name] = v
                        sites.append((f.path, vals))
                    it.assign(st, s)
        if not sites:
            return {}, []
        names = set()
        for _, v in sites:
            names |= set(v)
        out = {}
        for nme in names:
            vals = [v.get(nme) for _, v in sites]
            if all(x == vals[0] for x in vals) and vals[0] is not None:
                out[pkey(SELF + [['f', field_index(facts, adt, nme), nme]])] = vals[0]
        return out, [p for p, _ in sites]
    return _memo(facts, 'init:' + adt, build)


def field_index(facts, adt, name):
    for i, f in enumerate(facts.adts[adt]['variants'][0]['fields']):
        if f['name'] == name:
            return i
    return -1


class OpInterp(Interp):
    """absint with the input protocol, output phase tracking and helper inlining"""

    def __init__(self, facts, fn, summaries, protocol=True, depth=0, root=None):
        super().__init__(facts, fn, summaries=summaries)
        self.protocol = protocol
        self.closure_pushes = closure_variants(facts, summaries)
        self.depth = depth
        self.root = root or self
        if root is None:
            self.inline_cache = {}
            self.inconclusive = []
        self.reaching = input_reaching_methods(facts, fn.impl_adt) if fn.impl_adt else set()

    def allowed_inputs(self, st):
        ph = st.get(K_IN, ('c', 'start'))[1]
        if not self.protocol:
            return list(SE_VARIANTS)
        if ph == 'term':
            return []
        if ph == 'far':
            return list(SE_VARIANTS)
        return [v for v in SE_VARIANTS if v != 'Terminate']

    def call_outcomes(self, st, b, t):
        if is_input_call(t):
            outs = []
            ph = st.get(K_IN, ('c', 'start'))[1]
            if ph == 'term':
                # asking for input after Terminate was received: reported by the rules
                s2 = dict(st)
                self.set(s2, t['dest'], None)
                return [(s2, 'AFTER_TERMINATE')]
            for v in self.allowed_inputs(st):
                s2 = dict(st)
                # the callee gets &mut self.prev only
                self.set(s2, t['dest'], ('v', frozenset([v])))
                s2[K_IN] = ('c', 'far' if v == 'FlushAndRestart' else ('term' if v == 'Terminate' else 'data'))
                outs.append((s2, v))
            return outs
        c = t['callee']
        tgt_path = c.get('resolved') or c.get('path')
        if tgt_path in self.reaching and self.depth < 4 and t['args']:
            a0 = self.eval_op(st, t['args'][0])
            if a0 and a0[0] == 'ref' and json.loads(a0[1]) == SELF:
                callee = self.facts.fn(tgt_path, required=False)
                if callee is not None:
                    return self.inline(st, t, callee)
        return super().call_outcomes(st, b, t)

    def inline(self, st, t, callee):
        """summarise a helper method of the same type in the caller's self-state"""
        selfst = self.carried(st)
        key = (callee.path, freeze(selfst))
        cache = self.root.inline_cache
        if key not in cache:
            sub = OpInterp(self.facts, callee, self.summaries, self.protocol, self.depth + 1, self.root)
            try:
                g = sub.explore(0, selfst)
            except Bound as e:
                self.root.inconclusive.append(str(e))
                g = None
            outs = []
            if g is not None:
                for n in g.return_nodes():
                    stn = g.pre_term[n]
                    # labels consumed on some path to n (0 or 1 expected)
                    labs = labels_to(g, n)
                    ret = {}
                    for k, v in stn.items():
                        kp = json.loads(k)
                        if kp[0] == 0 and v[0] in ('c', 'v'):
                            ret[k] = v
                    for lab in labs:
                        outs.append((freeze(sub.carried(stn)), freeze(ret), lab))
            cache[key] = outs
        res = []
        seen = set()
        for carried, ret, lab in cache[key]:
            if (carried, ret, lab) in seen:
                continue
            seen.add((carried, ret, lab))
            s2 = {k: v for k, v in st.items() if not (k in dict(carried) or self._is_self_key(k))}
            s2.update(dict(carried))
            dst = self.set(s2, t['dest'], None)
            if self.trackable(dst):
                for k, v in ret:
                    kp = json.loads(k)
                    nk = dst + kp[1:]
                    if self.trackable(nk):
                        s2[pkey(nk)] = v
            res.append((s2, lab))
        return res

    def _is_self_key(self, k):
        kp = json.loads(k)
        return (len(kp) >= 3 and kp[0] == 1 and kp[1] == '*') or isinstance(kp[0], str)

    def on_return(self, st, b):
        if self.depth > 0:
            return None
        rv = st.get(pkey([0]))
        c = self.carried(st)
        if rv and rv[0] == 'v':
            if rv[1] == frozenset(['Terminate']):
                return None
            if rv[1] == frozenset(['FlushAndRestart']):
                c[K_OUT] = ('c', 'far')
            elif 'FlushAndRestart' not in rv[1] and 'Terminate' not in rv[1]:
                if rv[1] <= frozenset(['FlushBatch']):
                    pass   # FlushBatch does not change the phase
                else:
                    c[K_OUT] = ('c', 'data')
            else:
                c[K_OUT] = ('c', 'unknown')
        else:
            c[K_OUT] = ('c', 'unknown')
        return c


def labels_to(g, target):
    """set of input labels (or None for 'no input consumed') over the paths root -> target.
    Paths that consume two inputs are reported as label ('MULTI',)."""
    # forward propagate label sets
    lab = {g.root: {None}}
    work = [g.root]
    while work:
        n = work.pop()
        for m in g.succ(n):
            l = g.labels.get((n, m))
            new = set()
            for x in lab[n]:
                if l is None:
                    new.add(x)
                elif x is None:
                    new.add(l)
                else:
                    new.add('MULTI')
            if not new <= lab.get(m, set()):
                lab[m] = lab.get(m, set()) | new
                work.append(m)
    return lab.get(target, set())


class Automaton:
    def __init__(self, facts, fn):
        self.facts = facts
        self.fn = fn
        summaries = se_summaries(facts)
        # evaluated on the view with private same-type helpers inlined: extracting / inlining a helper does not change the automaton
        self.ifn = facts.inl(fn, mode='self')
        self.interp = OpInterp(facts, self.ifn, summaries)
        init, self.ctor_sites = initial_self_state(facts, fn.impl_adt, summaries)
        init = dict(init)
        # `setup` runs between construction and the first `next`: forget what it may write
        from .modset import mod_fields
        self.setup_mods = set()
        for su in facts.fns:
            if su.crate == 'renoir' and su.impl_adt == fn.impl_adt and su.name == 'setup' and su.kind == 'assoc':
                self.setup_mods |= mod_fields(facts, su)
        for k in list(init):
            kp = json.loads(k)
            if '*' in self.setup_mods or kp[2][2] in self.setup_mods:
                del init[k]
        init[K_IN] = ('c', 'start')
        init[K_OUT] = ('c', 'none')
        self.init = init
        self.g = self.interp.explore(0, init, reactivate=True)
        g = self.g
        self.input_edges = {}   # variant -> list of (n, m)
        for (n, m), lab in g.labels.items():
            self.input_edges.setdefault(lab, []).append((n, m))
        self.has_input = bool(g.labels)

    def ret_set(self, n):
        rv = self.g.ret_value(n)
        if rv and rv[0] == 'v':
            return rv[1]
        return None

    def is_input_node(self, n):
        return any((n, m) in self.g.labels for m in self.g.succ(n))

    def after_edge(self, variant, stop_at_return_of=None):
        """nodes reachable from the targets of `variant` input edges, not expanding return nodes whose
        value is exactly {stop_at_return_of}"""
        starts = [m for (_, m) in self.input_edges.get(variant, [])]
        return starts

    def transfer_table(self):
        """input variant -> sorted list of output variants (or '?') returned before the next input"""
        out = {}
        g = self.g
        for v, edges in self.input_edges.items():
            seen = set()
            outs = set()
            reinput = False
            st = [m for _, m in edges]
            while st:
                n = st.pop()
                if n in seen:
                    continue
                seen.add(n)
                if self.is_input_node(n):
                    reinput = True
                    continue
                if g.is_return(n):
                    rs = self.ret_set(n)
                    outs |= set(rs) if rs else {'?'}
                st.extend(g.succ(n))
            out[v] = {'returns': sorted(outs), 'asks_input_again': reinput}
        return out


def operator_nexts(facts):
    return sorted(facts.impl_methods(OP_TRAIT, 'next'), key=lambda f: f.path)


def automaton(facts, fn):
    return _memo(facts, 'aut:%d' % id(fn), lambda: (fn, Automaton(facts, fn)))[1]
