"""E2: plan shapes.  The job-graph building effects of every public combinator, extracted from MIR and composed
interprocedurally: which operators are appended, where block boundaries are created (with which NextStrategy),
how the consumer's replication is restricted, binary connections, finalisation.
"""
from .facts import is_local
from .symex import Sym, render, strip

STREAM_ADTS = ('renoir::stream::Stream', 'renoir::stream::KeyedStream', 'renoir::stream::WindowedStream')
NS = 'renoir::block::next_strategy::NextStrategy'
REPL = 'renoir::block::Replication'

_memo = {}


def is_combinator(facts, f):
    return f is not None and f.kind == 'assoc' and (f.impl_adt or '').startswith(('renoir::stream::', 'renoir::operator::join::', 'renoir::operator::route::RouterBuilder',
                                                                                   'renoir::environment::StreamContext'))


def rpo(fn):
    seen, order = set(), []

    def dfs(b):
        stack = [(b, iter(fn.succ(b)))]
        seen.add(b)
        while stack:
            n, it = stack[-1]
            adv = False
            for s in it:
                if s not in seen and not fn.blocks[s]['cleanup']:
                    seen.add(s)
                    stack.append((s, iter(fn.succ(s))))
                    adv = True
                    break
            if not adv:
                order.append(n)
                stack.pop()
    dfs(0)
    return list(reversed(order))


def in_cycle(fn, b):
    return any(b in fn.reachable_from(s) for s in fn.succ(b))


def describe_strategy(facts, fn, sym, op, depth=0):
    x = strip(sym.operand(op))
    return strategy_of(facts, x)


def strategy_of(facts, x):
    x = strip(x)
    if x[0] == 'call':
        p = x[1]
        last = p.rsplit('::', 1)[-1]
        if p.startswith(NS) or 'NextStrategy' in p:
            if last == 'only_one':
                return ('OnlyOne',)
            if last == 'all':
                return ('All',)
            if last == 'random':
                return ('Random',)
            if last == 'group_by':
                return ('GroupBy', 'hash', render(strip(x[2][0])) if x[2] else '?')
        if last == 'clone' and x[2]:
            return strategy_of(facts, x[2][0])
        return ('?', render(x)[:80])
    if x[0] == 'agg' and x[1][0] == 'adt' and x[1][1] == NS:
        v = x[1][2]
        if v == 'GroupBy':
            k = x[2][0] if x[2] else None
            kd = strip(k) if k else None
            if kd and kd[0] == 'agg' and kd[1][0] == 'closure':
                return ('GroupBy', 'closure', kd[1][1])
            return ('GroupBy', 'expr', render(kd) if kd else '?')
        return (v,)
    if x[0] == 'arg':
        return ('param', 'arg%d' % x[1])       # by position: parameter names are not part of the rule
    return ('?', render(x)[:80])


def replication_of(x):
    x = strip(x)
    if x[0] == 'agg' and x[1][0] == 'adt' and x[1][1] == REPL:
        return ('const', x[1][2])
    if x[0] == 'arg':
        return ('param', 'arg%d' % x[1])
    if x[0] == 'call' and x[1].startswith(REPL):
        return ('call', x[1].rsplit('::', 1)[-1])
    return ('expr', render(x)[:80])


def effects(facts, fn, depth=0, stack=()):
    """ordered list of effects of calling combinator `fn`"""
    key = (id(facts), fn.path, fn.crate)
    if key in _memo:
        return _memo[key]
    if fn.path in stack or depth > 8:
        return [{'kind': 'recursion', 'fn': fn.path}]
    sym = Sym(fn, facts=facts)
    out = []
    for b in rpo(fn):
        blk = fn.blocks[b]
        # assignments to block.scheduling / is_only_one_strategy fields
        for s in blk['s']:
            if s['k'] != 'assign' or is_local(s['lhs']):
                continue
            names = [e[2] for e in s['lhs'][1:] if isinstance(e, list) and e[0] == 'f']
            if names and names[-1] == 'scheduling':
                out.append({'kind': 'set_scheduling', 'value': render(strip(sym.rvalue(s['rv'])))[:160], 'at': s['at'], 'loop': in_cycle(fn, b)})
            if names and names[-1] == 'is_only_one_strategy':
                out.append({'kind': 'set_only_one', 'value': render(strip(sym.rvalue(s['rv'])))[:120], 'at': s['at']})
        t = blk['t']
        if t['t'] != 'call':
            continue
        c = t['callee']
        p = c.get('path') or ''
        last = p.rsplit('::', 1)[-1]
        loop = in_cycle(fn, b)
        if c.get('indirect') or p.startswith('std::ops::Fn'):
            # a user closure receiving a stream (loop bodies, route predicates are not streams)
            argtys = [fn.locals[a[1][0]]['ty'] for a in t['args'] if a[0] != 'k' and is_local(a[1])]
            if any('renoir::stream::Stream<' in x or 'renoir::stream::KeyedStream<' in x for x in argtys):
                out.append({'kind': 'user_closure', 'at': t['at'], 'loop': loop})
            continue
        if last == 'add_operator' and (c.get('self_adt') in STREAM_ADTS or 'Stream' in (c.get('impl_self') or '')) and 'block::Block' not in p:
            ga = c.get('gargs', [])
            op2 = ga[1] if len(ga) > 1 else '?'
            head = op2.split('<', 1)[0]
            if c.get('self_adt') == 'renoir::stream::KeyedStream' or 'KeyedStream' in (c.get('impl_self') or ''):
                # KeyedStream::add_operator forwards to Stream::add_operator: expand would double count
                out.append({'kind': 'op', 'op': head, 'full': op2[:200], 'at': t['at'], 'loop': loop, 'args': ctor_args(facts, fn, sym, t)})
            else:
                out.append({'kind': 'op', 'op': head, 'full': op2[:200], 'at': t['at'], 'loop': loop, 'args': ctor_args(facts, fn, sym, t)})
            continue
        if last == 'split_block' and 'Stream' in (c.get('impl_self') or ''):
            st = describe_strategy(facts, fn, sym, t['args'][2]) if len(t['args']) > 2 else ('?',)
            endop = render(strip(sym.operand(t['args'][1])))[:80] if len(t['args']) > 1 else '?'
            out.append({'kind': 'split', 'strategy': st, 'end': endop, 'at': t['at'], 'loop': loop})
            continue
        if last == 'binary_connection':
            s1 = describe_strategy(facts, fn, sym, t['args'][3]) if len(t['args']) > 4 else ('?',)
            s2 = describe_strategy(facts, fn, sym, t['args'][4]) if len(t['args']) > 4 else ('?',)
            start = render(strip(sym.operand(t['args'][2])))[:120] if len(t['args']) > 2 else '?'
            out.append({'kind': 'binary', 's1': s1, 's2': s2, 'start': start, 'at': t['at'], 'loop': loop})
            continue
        if p.endswith('block::Scheduling::replication'):
            r = replication_of(sym.operand(t['args'][1])) if len(t['args']) > 1 else ('?',)
            out.append({'kind': 'repl', 'repl': r, 'at': t['at'], 'loop': loop})
            continue
        if last == 'finalize_block':
            out.append({'kind': 'finalize', 'at': t['at'], 'loop': loop})
            continue
        if p.endswith('StreamContextInner::clone_block') or (last == 'clone' and 'Stream' in (c.get('impl_self') or '') and 'std::clone' not in p):
            out.append({'kind': 'clone_block', 'at': t['at'], 'loop': loop})
            if p.endswith('StreamContextInner::clone_block'):
                continue
        if last in ('mark_feedback', 'ignore_destination', 'connect_blocks', 'connect_blocks_fragile', 'new_block', 'close_block', 'schedule_block'):
            out.append({'kind': last, 'at': t['at'], 'loop': loop, 'full': (c.get('full') or '')[:160]})
            continue
        if p in ('std::iter::Iterator::for_each', 'std::iter::Iterator::try_for_each'):
            # `(0..n).for_each(|_| ..)`: the adapter form of a loop - the closure body's effects happen once per element
            for a in t['args'][1:]:
                if a[0] == 'k' or not is_local(a[1]):
                    continue
                cd = fn.locals[a[1][0]].get('closure')
                gl = facts.by_path.get(cd) if cd else None
                if gl:
                    for e in effects(facts, gl[0], depth + 1, stack + (fn.path,)):
                        e2 = dict(e)
                        e2['loop'] = True
                        out.append(e2)
            continue
        # another combinator: expand
        tgt = None
        for cand in (c.get('resolved'), p):
            if cand and cand in facts.by_path:
                for g in facts.by_path[cand]:
                    if g.crate == 'renoir':
                        tgt = g
        if tgt is not None and is_combinator(facts, tgt) and tgt.path != fn.path:
            sub = effects(facts, tgt, depth + 1, stack + (fn.path,))
            for e in sub:
                e2 = dict(e)
                e2['via'] = [tgt.name] + e.get('via', [])
                e2['loop'] = e.get('loop', False) or loop
                # parameters of the callee are bound to the caller's arguments
                if e2.get('kind') == 'repl' and e2['repl'][0] == 'param':
                    idx = param_index(tgt, e2['repl'][1])
                    if idx is not None and idx - 1 < len(t['args']):
                        e2['repl'] = replication_of(sym.operand(t['args'][idx - 1]))
                if e2.get('kind') == 'split' and e2['strategy'][0] == 'param':
                    idx = param_index(tgt, e2['strategy'][1])
                    if idx is not None and idx - 1 < len(t['args']):
                        e2['strategy'] = describe_strategy(facts, fn, sym, t['args'][idx - 1])
                out.append(e2)
    _memo[key] = out
    return out


def param_index(fn, name):
    """MIR local of the parameter designated by an ('param', 'argN') effect"""
    if name.startswith('arg') and name[3:].isdigit() and 1 <= int(name[3:]) <= fn.argc:
        return int(name[3:])
    return None


def ctor_args(facts, fn, sym, t):
    """for add_operator(|prev| Op::new(prev, a, b)): the rendered constructor arguments (from the closure body)"""
    out = []
    for a in t['args']:
        if a[0] == 'k' or not is_local(a[1]):
            continue
        cd = fn.locals[a[1][0]].get('closure')
        g = facts.fn(cd, required=False) if cd else None
        if g is None:
            continue
        gs = Sym(g, facts=facts)
        for bi, tt in g.calls():
            pp = tt['callee'].get('path') or ''
            if pp.rsplit('::', 1)[-1] in ('new', 'new_with_cache', 'single', 'multiple'):
                out = [render(strip(gs.operand(x)))[:100] for x in tt['args']]
    return out


def show(e):
    k = e['kind']
    if k == 'op':
        return 'op(%s)' % e['op'].split('::')[-1]
    if k == 'split':
        return 'split(%s)' % (e['strategy'][0] + ((':' + str(e['strategy'][1])) if len(e['strategy']) > 1 else ''))
    if k == 'binary':
        return 'binary(%s,%s)' % (e['s1'][0], e['s2'][0])
    if k == 'repl':
        return 'repl(%s)' % ':'.join(e['repl'])
    return k


def public_combinators(facts):
    out = []
    for f in facts.lib_fns():
        if f.kind == 'assoc' and f.is_pub and (f.impl_adt or '') in STREAM_ADTS + ('renoir::operator::join::JoinStream', 'renoir::operator::join::JoinStreamShipHash',
                                                                                     'renoir::operator::join::JoinStreamShipBroadcastRight', 'renoir::operator::join::JoinStreamLocalHash',
                                                                                     'renoir::operator::join::JoinStreamLocalSortMerge', 'renoir::operator::route::RouterBuilder',
                                                                                     'renoir::environment::StreamContext'):
            out.append(f)
    return sorted(out, key=lambda f: f.path)
