"""E1: path-sensitive abstract interpretation of one MIR body over a small finite domain.

Tracked places: a local followed by field / downcast projections (no index), and first-level fields
of *self (local 1 behind one deref), also followed by field / downcast projections.

Abstract values:
  ('c', text)                  a constant (bool / integer literal text as printed by rustc)
  ('v', frozenset)             an enum value whose variant is in the set
  ('d', key)                   the discriminant of the place `key`
  ('ref', key, mut)            a reference to the place `key`
  ('same', key)                a copy of the (unknown) scalar currently stored in `key`
  ('isv', key, variant, sense) bool: "variant(key) == variant" (sense True) or its negation
  ('q', segments)              abstract FIFO of enum elements: tuple of (variant set, 'one'|'star')
  ('clo', def path, captured)  a closure value with the keys of its captured references
States are never merged: the result is an exploded graph of (block, state) nodes on which rules run
reachability queries.  Nothing is executed; integer payloads are never evaluated.
"""
import json
import re

from .facts import SE, SE_VARIANTS, is_local, pkey

STD_VARIANTS = {
    'std::option::Option': ['None', 'Some'],
    'std::result::Result': ['Ok', 'Err'],
    'std::ops::ControlFlow': ['Continue', 'Break'],
    'std::task::Poll': ['Ready', 'Pending'],
}
SOME0 = [['d', 'Some', 1], ['f', 0, '0']]
# std combinators that call their closure argument at most once, immediately, depending on the receiver
ONCE_COMBINATORS = {
    'std::option::Option::<T>::or_else': {'when': 'None', 'other': 'Some', 'ret_skip': 'Some'},
    'std::option::Option::<T>::unwrap_or_else': {'when': 'None', 'other': 'Some'},
    'std::option::Option::<T>::map': {'when': 'Some', 'other': 'None', 'ret_run': 'Some', 'ret_skip': 'None'},
    'std::option::Option::<T>::and_then': {'when': 'Some', 'other': 'None', 'ret_skip': 'None'},
    'std::option::Option::<T>::filter': {'when': 'Some', 'other': 'None', 'ret_skip': 'None'},
    'std::option::Option::<T>::map_or': {'when': 'Some', 'other': 'None'},
    'std::option::Option::<T>::get_or_insert_with': {'when': 'None', 'other': 'Some', 'receiver_place': True,
                                                     'sets_receiver': 'Some'},
}
TOP = None


class Bound(Exception):
    pass


_INT = re.compile(r'^(-?\d+)_([iu](?:8|16|32|64|128|size))$')


def const_int(txt):
    m = _INT.match(txt or '')
    if m:
        return int(m.group(1)), m.group(2)
    return None


def freeze(st):
    return tuple(sorted(st.items()))


_kp_cache = {}


def kp_of(k):
    """parsed form of a place key (cached: keys are a small set of strings)"""
    v = _kp_cache.get(k)
    if v is None:
        v = json.loads(k)
        _kp_cache[k] = v
    return v


def _proj_ok(e):
    return isinstance(e, list) and e[0] in ('f', 'd')


class Interp:
    def __init__(self, facts, fn, max_nodes=40000, summaries=None):
        self.facts = facts
        self.fn = fn
        self.max_nodes = max_nodes
        self.summaries = summaries if summaries is not None else {}
        self.key_adt = {}   # extra: key -> adt path (pseudo places)
        self.key_type = {}  # extra: key -> type string (pseudo places)
        self.closure_pushes = None  # callback(def path, ret=False) -> variant set or None

    # ---- ADT helpers
    def variants_of(self, adt):
        if adt in STD_VARIANTS:
            return STD_VARIANTS[adt]
        a = self.facts.adts.get(adt)
        if a and a['kind'] == 'enum':
            return [v['name'] for v in a['variants']]
        return None

    def self_field_info(self, name):
        if not self.fn.impl_adt:
            return None
        a = self.facts.adts.get(self.fn.impl_adt)
        if a:
            for f in a['variants'][0]['fields']:
                if f['name'] == name:
                    return f
        return None

    def adt_of_key(self, key):
        if key in self.key_adt:
            return self.key_adt[key]
        pl = json.loads(key)
        if not isinstance(pl[0], int) or pl[0] >= len(self.fn.locals):
            return None
        if is_local(pl):
            ty = self.fn.locals[pl[0]]['ty']
            if ty.startswith('&') or ty.startswith('*'):
                return None
            return self.fn.locals[pl[0]].get('adt')
        if len(pl) == 3 and pl[0] == 1 and pl[1] == '*':
            f = self.self_field_info(pl[2][2])
            if f:
                ty = f['ty']
                if ty.startswith('&') or ty.startswith('*'):
                    return None
                return f.get('adt')
            return None
        # payload places: Option<StreamElement<..>> payload etc.
        base = pl[:-2]
        if len(pl) >= 3 and pl[-2:] == SOME0:
            bty = self.type_of_place(base)
            if bty and bty.startswith('std::option::Option<'):
                inner = bty[len('std::option::Option<'):-1]
                head = inner.split('<', 1)[0]
                if self.variants_of(head):
                    return head
        return None

    def type_of_place(self, pl):
        if isinstance(pl[0], str):
            return self.key_type.get(pkey(pl[:1])) if len(pl) == 1 else None
        if is_local(pl):
            if pl[0] < len(self.fn.locals):
                return self.fn.locals[pl[0]]['ty']
            return None
        if len(pl) == 3 and pl[0] == 1 and pl[1] == '*':
            f = self.self_field_info(pl[2][2])
            return f['ty'] if f else None
        if len(pl) > 3 and pl[0] == 1 and pl[1] == '*' and all(isinstance(e, list) and e[0] == 'f' for e in pl[2:]):
            # nested field of a crate-local struct field: walk the ADT table
            f = self.self_field_info(pl[2][2])
            for e in pl[3:]:
                if not f or not f.get('adt'):
                    return None
                a = self.facts.adts.get(f['adt'])
                if not a or a['kind'] != 'struct' or f['ty'].startswith(('&', '*')):
                    return None
                nxt = None
                for g in a['variants'][0]['fields']:
                    if g['name'] == e[2]:
                        nxt = g
                f = nxt
            return f['ty'] if f else None
        return None

    # ---- places
    def norm(self, st, pl):
        """resolve leading derefs of known reference locals; returns a place (list)"""
        guard = 0
        while len(pl) >= 2 and pl[1] == '*' and guard < 8:
            v = st.get(pkey([pl[0]]))
            if v and v[0] == 'ref':
                pl = json.loads(v[1]) + pl[2:]
                guard += 1
            else:
                break
        return pl

    def trackable(self, pl):
        if len(pl) > 6:
            return False
        if pl[0] == 1 and len(pl) >= 3 and pl[1] == '*':
            return all(_proj_ok(e) for e in pl[2:]) and pl[2][0] == 'f'
        return all(_proj_ok(e) for e in pl[1:])

    def kill(self, st, pl):
        """a write to (normalised) place pl invalidates tracked keys overlapping it"""
        dead = []
        for k in st:
            kp = kp_of(k)
            n = min(len(kp), len(pl))
            if kp[:n] == pl[:n]:
                dead.append(k)
        self._drop(st, dead, extra=pkey(pl))

    def _drop(self, st, dead, extra=None):
        for k in dead:
            st.pop(k, None)
        dead_keys = set(dead)
        if extra:
            dead_keys.add(extra)
        if not dead_keys:
            return
        for k in list(st):
            v = st[k]
            if v[0] in ('d', 'same', 'isv', 'isempty', 'isnonempty', 'popres', 'len') and v[1] in dead_keys:
                del st[k]

    def kill_under(self, st, pl):
        """a callee received &mut pl: everything at or below pl may change"""
        dead = []
        for k in st:
            kp = kp_of(k)
            if len(kp) >= len(pl) and kp[:len(pl)] == pl:
                dead.append(k)
        self._drop(st, dead)

    def set(self, st, pl, val):
        pl = self.norm(st, pl)
        self.kill(st, pl)
        if val is not None and self.trackable(pl):
            st[pkey(pl)] = val
        return pl

    def get(self, st, pl):
        pl = self.norm(st, pl)
        if self.trackable(pl):
            return st.get(pkey(pl))
        return None

    def eval_op(self, st, op):
        if op[0] == 'k':
            c = self.facts.consts.get(op[1])
            if c is not None and c.get('value') and c.get('ty') in ('u8', 'u16', 'u32', 'u64', 'usize', 'i8', 'i16', 'i32', 'i64', 'isize'):
                try:
                    return ('c', '%d_%s' % (int(c['value'], 16), c['ty']))
                except ValueError:
                    pass
            return ('c', op[1])
        pl = self.norm(st, op[1])
        v = self.get(st, pl)
        if v is not None:
            return v
        if self.trackable(pl) and (op[0] == 'c' or len(pl) == 1):
            # (a scalar temporary that is moved keeps its value: `_flag = move _tmp` still "is" _tmp for the path conditions)
            ty = self.type_of_place(pl)
            if ty in ('bool', 'usize', 'u64', 'i64', 'u32', 'i32', 'isize', 'u8'):
                return ('same', pkey(pl))
        return None

    def copy_sub(self, st, src, dst, snapshot):
        """copy tracked sub-places of src (from snapshot) below dst"""
        if not (self.trackable(src) and self.trackable(dst)) or src == dst:
            return
        n = len(src)
        for k, v in snapshot.items():
            kp = kp_of(k)
            if len(kp) > n and kp[:n] == src:
                nk = dst + kp[n:]
                if self.trackable(nk):
                    st[pkey(nk)] = v

    # ---- transfer
    def assign(self, st, s):
        if s['k'] == 'setdiscr':
            pl = self.norm(st, s['lhs'])
            adt = self.adt_of_key(pkey(pl)) if self.trackable(pl) else None
            vs = self.variants_of(adt) if adt else None
            if vs and s['vi'] < len(vs):
                self.set(st, pl, ('v', frozenset([vs[s['vi']]])))
            else:
                self.set(st, pl, None)
            return
        rv = s['rv']
        r = rv['r']
        val = None
        if r == 'use':
            val = self.eval_op(st, rv['o'])
            if val is None and rv['o'][0] != 'k' and len(s['lhs']) == 1 and getattr(self, '_pos', None) is not None \
                    and len(self.fn.defs().get(s['lhs'][0], [])) > 1 and self.variants_of(self.fn.locals[s['lhs'][0]].get('adt') or ''):
                # one of several definitions of an enum-typed local (`let t = if c { None } else { self.max_delay }`): remember which
                # copy is current on this path, so that a later `match t` is described by the place it was copied from
                val = ('site', self._pos[0], self._pos[1])
            if rv['o'][0] != 'k':
                src = self.norm(st, rv['o'][1])
                snap = dict(st)
                dst = self.set(st, s['lhs'], val)
                self.copy_sub(st, src, dst, snap)
                return
        elif r == 'ref':
            p = self.norm(st, rv['p'])
            val = ('ref', pkey(p), rv['mut'])
        elif r == 'rawptr':
            p = self.norm(st, rv['p'])
            val = ('ref', pkey(p), True)
        elif r == 'agg':
            if rv['k'] == 'adt':
                vs = self.variants_of(rv['adt'])
                if vs:
                    val = ('v', frozenset([rv['v']]))
                    vals = [self.eval_op(st, o) for o in rv['o']]
                    dst = self.set(st, s['lhs'], val)
                    if self.trackable(dst):
                        for i, v in enumerate(vals):
                            if v is not None and v[0] in ('v', 'c'):
                                fname = rv['fields'][i] if i < len(rv['fields']) else str(i)
                                nk = dst + [['d', rv['v'], rv['vi']], ['f', i, fname]]
                                if self.trackable(nk):
                                    st[pkey(nk)] = v
                    return
            elif rv['k'] == 'tuple':
                vals = [self.eval_op(st, o) for o in rv['o']]
                dst = self.set(st, s['lhs'], None)
                if self.trackable(dst):
                    for i, v in enumerate(vals):
                        if v is not None and v[0] in ('v', 'c'):
                            nk = dst + [['f', i, str(i)]]
                            if self.trackable(nk):
                                st[pkey(nk)] = v
                return
            elif rv['k'] == 'closure':
                caps = []
                for ci, o in enumerate(rv['o']):
                    v = self.eval_op(st, o)
                    if v and v[0] == 'ref':
                        caps.append((v[1], v[2], ci))
                val = ('clo', rv['def'], tuple(caps))
                # the captured `&mut P` take effect where the closure is handed to a callee (call_effect)
        elif r == 'discr':
            p = self.norm(st, rv['p'])
            val = ('d', pkey(p))
        elif r == 'un' and rv['op'] == 'Not':
            a = self.eval_op(st, rv['a'])
            if a and a[0] == 'c' and a[1] in ('true', 'false'):
                val = ('c', 'false' if a[1] == 'true' else 'true')
            elif a and a[0] == 'isv':
                val = ('isv', a[1], a[2], not a[3])
            elif a and a[0] == 'isempty':
                val = ('isnonempty', a[1])
            elif a and a[0] == 'isnonempty':
                val = ('isempty', a[1])
        elif r == 'bin' and rv['op'] in ('Eq', 'Ne', 'Lt', 'Le', 'Gt', 'Ge', 'Add', 'Sub', 'AddWithOverflow', 'SubWithOverflow'):
            a = self.eval_op(st, rv['a'])
            b = self.eval_op(st, rv['b'])
            # `c.len() == 0`, `c.len() > 0`, `c.len() < 1` ... : emptiness tests spelled with the length
            for x_, y_, flip_ in ((a, b, False), (b, a, True)):
                if x_ and y_ and x_[0] == 'len' and y_[0] == 'c' and const_int(y_[1]):
                    k_ = const_int(y_[1])[0]
                    op2 = rv['op'] if not flip_ else {'Lt': 'Gt', 'Gt': 'Lt', 'Le': 'Ge', 'Ge': 'Le'}.get(rv['op'], rv['op'])
                    if (op2, k_) in (('Eq', 0), ('Le', 0), ('Lt', 1)):
                        val = ('isempty', x_[1])
                    elif (op2, k_) in (('Ne', 0), ('Gt', 0), ('Ge', 1)):
                        val = ('isnonempty', x_[1])
            if val is not None:
                pass
            elif a and b and a[0] == 'c' and b[0] == 'c':
                ia, ib = const_int(a[1]), const_int(b[1])
                op_ = rv['op']
                if ia and ib and ia[1] == ib[1] and -(1 << 63) < ia[0] < (1 << 63) and abs(ia[0]) < 4096 and abs(ib[0]) < 4096:
                    # small literal counters only (a finite state machine such as a retry counter); the bound keeps the
                    # state space finite: larger values become unknown
                    x, y, ty = ia[0], ib[0], ia[1]
                    if op_ in ('Eq', 'Ne', 'Lt', 'Le', 'Gt', 'Ge'):
                        res = {'Eq': x == y, 'Ne': x != y, 'Lt': x < y, 'Le': x <= y, 'Gt': x > y, 'Ge': x >= y}[op_]
                        val = ('c', 'true' if res else 'false')
                    else:
                        z = x + y if op_.startswith('Add') else x - y
                        if 0 <= z < 64:
                            if op_.endswith('WithOverflow'):
                                dst = self.set(st, s['lhs'], None)
                                if self.trackable(dst):
                                    st[pkey(dst + [['f', 0, '0']])] = ('c', '%d_%s' % (z, ty))
                                    st[pkey(dst + [['f', 1, '1']])] = ('c', 'false')
                                return
                            val = ('c', '%d_%s' % (z, ty))
                elif op_ in ('Eq', 'Ne'):
                    eq = (a[1] == b[1])
                    val = ('c', 'true' if (eq == (op_ == 'Eq')) else 'false')
        if val is None and r in ('bin', 'un') and len(s['lhs']) == 1 and self.fn.locals[s['lhs'][0]]['ty'] == 'bool' \
                and getattr(self, '_pos', None) is not None and len(self.fn.defs().get(s['lhs'][0], [])) > 1:
            # one of several definitions of a flag (`a == b && c == d`): remember which one is current on this path
            val = ('site', self._pos[0], self._pos[1])
        self.set(st, s['lhs'], val)

    def mut_capture(self, st, pl, closure_def):
        cur = self.get(st, pl)
        if cur and cur[0] == 'q' and self.closure_pushes and closure_def:
            vs = self.closure_pushes(closure_def)
            if vs is not None:
                st[pkey(pl)] = ('q', q_norm(cur[1] + ((frozenset(vs), 'star'),)))
                return
        self.kill_under(st, pl)

    COLL_PREFIXES = ('std::vec::Vec<', 'std::collections::VecDeque<', 'std::collections::HashMap<',
                     'std::collections::BTreeMap<', 'std::collections::HashSet<', 'std::collections::BTreeSet<',
                     'std::collections::BinaryHeap<', 'indexmap::IndexMap<', 'indexmap::IndexSet<')

    def is_collection_place(self, pl):
        ty = self.type_of_place(pl)
        return bool(ty) and ty.startswith(self.COLL_PREFIXES)

    def run_closure(self, st, clo):
        """apply the effect of one execution of closure `clo` on the places it captured by &mut:
        the closure body is explored with its captured references bound to pseudo places that carry the
        caller's abstract values; if every return agrees on a place's final value it is written back,
        otherwise the place becomes unknown."""
        cdef, caps = clo[1], clo[2]
        fn = self.facts.fn(cdef, required=False)
        muts = [c_ for c_ in caps if c_[1]]
        if fn is None or getattr(self, '_clo_depth', 0) > 2:
            for c_ in muts:
                self.kill_under(st, json.loads(c_[0]))
            return
        sub = Interp(self.facts, fn, summaries=self.summaries)
        sub._clo_depth = getattr(self, '_clo_depth', 0) + 1
        sub.closure_pushes = self.closure_pushes
        sub.max_nodes = 4000
        init = {}
        by_ref = fn.locals[1]['ty'].startswith('&')
        for (k, mut, ci) in caps:
            pseudo = ['$cap%d' % ci]
            pk = pkey(pseudo)
            caller_pl = json.loads(k)
            ty = self.type_of_place(caller_pl)
            if ty:
                sub.key_type[pk] = ty
            adt = self.adt_of_key(k)
            if adt:
                sub.key_adt[pk] = adt
            cur = st.get(k)
            if cur is not None and cur[0] in ('v', 'c', 'e', 'q'):
                init[pk] = cur
            # sub-places (payload facts) are not transferred
            cap_place = ([1, '*', ['f', ci, str(ci)]] if by_ref else [1, ['f', ci, str(ci)]])
            init[pkey(cap_place)] = ('ref', pk, mut)
        try:
            g = sub.explore(0, init)
        except Bound:
            for c_ in muts:
                self.kill_under(st, json.loads(c_[0]))
            return
        rets = g.return_nodes()
        for (k, mut, ci) in muts:
            pk = pkey(['$cap%d' % ci])
            vals = {g.pre_term[n].get(pk) for n in rets}
            self.kill_under(st, json.loads(k))
            if len(vals) == 1:
                v = vals.pop()
                if v is not None and v[0] in ('v', 'c', 'e', 'q') and self.trackable(json.loads(k)):
                    st[k] = v

    def is_queue_place(self, pl):
        ty = self.type_of_place(pl)
        return bool(ty) and (ty.startswith('std::collections::VecDeque<' + SE + '<'))

    def call_outcomes(self, st, b, t):
        """list of (state after the call with destination assigned, edge label or None)"""
        st2 = dict(st)
        outs = self.call_effect(st2, t)
        res = []
        for (s3, val, sub) in outs:
            if val is None and len(t['dest']) == 1 and self.fn.locals[t['dest'][0]]['ty'] == 'bool':
                # an untracked bool result: remember which call produced it, so that a later branch on a multiply-assigned flag
                # (`a && f(x)`) can be described by that call in the path conditions
                val = ('site', b, 'T')
            dst = self.set(s3, t['dest'], val)
            if sub and self.trackable(dst):
                for suffix, v in sub:
                    nk = dst + suffix
                    if self.trackable(nk) and v is not None:
                        s3[pkey(nk)] = v
            res.append((s3, None))
        return res

    def call_effect(self, st, t):
        """returns list of (state, dest value, [(suffix, value)]) ; applies kills for &mut arguments"""
        c = t['callee']
        args = t['args']
        path = c.get('path', '')
        val = None
        sub = []

        def arg_ref_target(i):
            if i >= len(args):
                return None
            v = self.eval_op(st, args[i])
            if v and v[0] == 'ref':
                return json.loads(v[1])
            return None

        handled = False
        # closures among the arguments
        clos = []
        for i, a in enumerate(args):
            v = self.eval_op(st, a)
            if v and v[0] == 'ref':
                v2 = self.get(st, json.loads(v[1]))
                if v2 and v2[0] == 'clo':
                    v = v2
            if v and v[0] == 'clo':
                clos.append((i, v))
        if clos:
            once = ONCE_COMBINATORS.get(path)
            if once and len(clos) == 1 and clos[0][0] == 1 and args:
                recv = self.eval_op(st, args[0])
                if recv and recv[0] == 'ref':
                    recv = self.get(st, json.loads(recv[1]))
                outs = []
                runs = []
                if recv and recv[0] == 'v' and len(recv[1]) == 1:
                    runs = [(list(recv[1])[0] == once['when'])]
                else:
                    runs = [True, False]
                for run in runs:
                    s3 = dict(st)
                    if run:
                        self.run_closure(s3, clos[0][1])
                        rv_ = once.get('ret_run')
                    else:
                        rv_ = once.get('ret_skip')
                    if recv and recv[0] != 'v' or not recv:
                        # learn the receiver variant on each branch when it is a tracked place
                        r0 = self.eval_op(st, args[0])
                        if r0 and r0[0] == 'ref' and once.get('receiver_place'):
                            tgtp = json.loads(r0[1])
                            if self.trackable(tgtp):
                                s3[pkey(tgtp)] = ('v', frozenset([once['when'] if run else once['other']]))
                    if once.get('sets_receiver') and run:
                        r0 = self.eval_op(st, args[0])
                        if r0 and r0[0] == 'ref':
                            tgtp = json.loads(r0[1])
                            self.kill_under(s3, tgtp)
                            if self.trackable(tgtp):
                                s3[pkey(tgtp)] = ('v', frozenset([once['sets_receiver']]))
                    val_ = ('v', frozenset([rv_])) if rv_ else None
                    outs.append((s3, val_, []))
                return outs
            for i, v in clos:
                for cap in v[2]:
                    if cap[1]:
                        self.mut_capture(st, json.loads(cap[0]), v[1])
        summ = self.summaries.get(path) or self.summaries.get(c.get('resolved', ''))
        if summ and args:
            a0 = self.eval_op(st, args[0])
            if a0 and a0[0] == 'ref':
                a0 = self.get(st, json.loads(a0[1]))
            src = a0[1] if (a0 and a0[0] == 'v') else summ['map'].keys()
            out = set()
            for v in src:
                out |= summ['map'].get(v, set(summ['all']))
            if summ.get('ret') is None:
                val = ('v', frozenset(out))
            else:
                sub.append(([['f', summ['ret'], str(summ['ret'])]], ('v', frozenset(out))))
            handled = True
        elif path == 'std::default::Default::default':
            sty = c.get('self_ty', '')
            if sty == 'bool':
                val = ('c', 'false')
            elif sty.startswith('std::option::Option<'):
                val = ('v', frozenset(['None']))
            elif sty.startswith('std::collections::VecDeque<' + SE + '<'):
                val = ('q', ())
            elif sty in ('usize', 'u64', 'i64', 'u32', 'i32'):
                val = ('c', '0_' + sty)
            elif sty.startswith(self.COLL_PREFIXES):
                val = ('e',)
            handled = True
        elif path in ('std::collections::VecDeque::<T>::new', 'std::collections::VecDeque::<T>::with_capacity') \
                and c.get('full', '').startswith('std::collections::VecDeque::<' + SE + '<'):
            val = ('q', ())
            handled = True
        elif path.rsplit('::', 1)[-1] in ('new', 'with_capacity', 'with_hasher', 'with_capacity_and_hasher') \
                and (c.get('impl_self') or '').startswith(self.COLL_PREFIXES):
            val = ('e',)
            handled = True
        elif path == 'std::ops::FromResidual::from_residual' and (c.get('self_ty') or '').startswith('std::option::Option<'):
            val = ('v', frozenset(['None']))     # `x?` on an Option: the early return value is None
            handled = True
        elif path in ('std::option::Option::<T>::unwrap', 'std::option::Option::<T>::expect', 'std::option::Option::<T>::unwrap_unchecked') \
                and args and args[0][0] in ('c', 'm'):
            # the payload of a tracked `Some(x)`: the value and its tracked sub-places move to the destination
            whole = self.get(st, self.norm(st, args[0][1]))
            if whole == ('v', frozenset(['None'])):
                return []        # unwrap() of a value known to be None diverges
            src = self.norm(st, args[0][1]) + SOME0
            if self.trackable(src):
                cur = self.get(st, src)
                if cur is not None and cur[0] in ('v', 'c'):
                    val = cur
                n = len(src)
                for k, v in st.items():
                    kp = kp_of(k)
                    if len(kp) > n and kp[:n] == src:
                        sub.append((kp[n:], v))
            handled = True
        elif path == 'std::option::Option::<T>::take' or path in ('std::mem::take', 'std::mem::replace'):
            tgt = arg_ref_target(0)
            if tgt is not None:
                old = self.get(st, tgt)
                snap = dict(st)
                if old and old[0] in ('v', 'q'):
                    val = old
                if path == 'std::option::Option::<T>::take':
                    self.set(st, tgt, ('v', frozenset(['None'])))
                elif path == 'std::mem::replace' and len(args) > 1:
                    self.set(st, tgt, self.eval_op(st, args[1]))
                elif old and old[0] == 'q':
                    self.set(st, tgt, ('q', ()))
                elif path == 'std::mem::take' and self.trackable(tgt) and self.is_collection_place(tgt):
                    self.set(st, tgt, ('e',))
                    if old == ('e',):
                        val = old
                else:
                    self.set(st, tgt, None)
                n = len(tgt)
                for k, v in snap.items():
                    kp = json.loads(k)
                    if len(kp) > n and kp[:n] == tgt:
                        sub.append((kp[n:], v))
                handled = True
        elif path in ('std::option::Option::<T>::is_some', 'std::option::Option::<T>::is_none'):
            tgt = arg_ref_target(0)
            want = 'Some' if path.endswith('is_some') else 'None'
            if tgt is not None:
                cur = self.get(st, tgt)
                if cur and cur[0] == 'v' and len(cur[1]) == 1:
                    val = ('c', 'true' if want in cur[1] else 'false')
                elif self.trackable(tgt):
                    val = ('isv', pkey(tgt), want, True)
            handled = True
        elif path == 'std::clone::Clone::clone':
            tgt = arg_ref_target(0)
            if tgt is not None:
                cur = self.get(st, tgt)
                if cur and cur[0] in ('v', 'c'):
                    val = cur
                    n = len(tgt)
                    for k, v in st.items():
                        kp = json.loads(k)
                        if len(kp) > n and kp[:n] == tgt:
                            sub.append((kp[n:], v))
            handled = True
        elif path in ('std::option::Option::<T>::as_ref', 'std::option::Option::<T>::as_mut',
                      'std::option::Option::<&T>::cloned', 'std::option::Option::<&T>::copied'):
            tgt = arg_ref_target(0)
            cur = self.get(st, tgt) if tgt is not None else (self.eval_op(st, args[0]) if args else None)
            if cur and cur[0] == 'v':
                val = cur
            handled = True
        elif path.startswith('std::collections::VecDeque::<T, A>::') or path.startswith('std::collections::VecDeque::<T>::') \
                or path == 'std::iter::Extend::extend':
            tgt = arg_ref_target(0)
            if tgt is not None and self.is_queue_place(tgt):
                cur = self.get(st, tgt)
                m = path.rsplit('::', 1)[1]
                handled = True
                if cur and cur[0] == 'q':
                    segs = cur[1]
                    if m == 'push_back':
                        a = self.eval_op(st, args[1])
                        vs = a[1] if (a and a[0] == 'v') else frozenset(SE_VARIANTS)
                        st[pkey(tgt)] = ('q', q_norm(segs + ((frozenset(vs), 'one'),)))
                    elif m == 'extend':
                        vs = None
                        if self.closure_pushes:
                            for cd in c.get('gclosures', []):
                                r_ = self.closure_pushes(cd, ret=True)
                                if r_ is not None:
                                    vs = (vs or set()) | set(r_)
                        if vs is None:
                            vs = set(SE_VARIANTS)
                        st[pkey(tgt)] = ('q', q_norm(segs + ((frozenset(vs), 'star'),)))
                    elif m == 'clear':
                        st[pkey(tgt)] = ('q', ())
                    elif m == 'is_empty':
                        if not segs:
                            val = ('c', 'true')
                        elif segs[0][1] == 'one':
                            val = ('c', 'false')
                        else:
                            val = ('isempty', pkey(tgt))
                    elif m == 'len':
                        pass
                    elif m == 'pop_front':
                        outs = []
                        for (vs, rest) in q_pop(segs):
                            s3 = dict(st)
                            s3[pkey(tgt)] = ('q', rest)
                            if vs is None:
                                outs.append((s3, ('v', frozenset(['None'])), []))
                            else:
                                outs.append((s3, ('v', frozenset(['Some'])), [(SOME0, ('v', vs))]))
                        return outs
                    else:
                        self.kill_under(st, tgt)
                else:
                    if m not in ('is_empty', 'len', 'front', 'back', 'iter'):
                        self.kill_under(st, tgt)
        if not handled and args:
            tgt = arg_ref_target(0)
            if tgt is not None and self.trackable(tgt) and self.is_collection_place(tgt) and not self.is_queue_place(tgt):
                m = path.rsplit('::', 1)[1] if '::' in path else path
                rfull = any('RangeFull' in g_ for g_ in c.get('gargs', []))
                if m == 'clear' or (m == 'drain' and (rfull or len(args) == 1)):
                    st[pkey(tgt)] = ('e',)
                    handled = True
                elif m == 'is_empty':
                    cur = self.get(st, tgt)
                    val = ('c', 'true') if cur == ('e',) else ('isempty', pkey(tgt))
                    handled = True
                elif m in ('pop', 'pop_front', 'pop_back', 'pop_first', 'pop_last'):
                    cur = self.get(st, tgt)
                    if cur == ('e',):
                        val = ('v', frozenset(['None']))
                    else:
                        self.kill_under(st, tgt)
                        val = ('popres', pkey(tgt))
                    handled = True
                elif m == 'len':
                    cur = self.get(st, tgt)
                    val = ('c', '0_usize') if cur == ('e',) else ('len', pkey(tgt))
                    handled = True
                elif m in ('iter', 'get', 'contains_key', 'first', 'last', 'front', 'back', 'capacity', 'values', 'keys', 'contains', 'peek'):
                    handled = True
        if not handled and path in ('std::mem::swap',) and len(args) == 2:
            a = arg_ref_target(0)
            b = arg_ref_target(1)
            if a is not None and b is not None and self.trackable(a) and self.trackable(b):
                va, vb = self.get(st, a), self.get(st, b)
                self.set(st, a, vb if vb and vb[0] in ('e', 'q', 'v', 'c') else None)
                self.set(st, b, va if va and va[0] in ('e', 'q', 'v', 'c') else None)
                handled = True
        if not handled:
            for i in range(len(args)):
                v = self.eval_op(st, args[i])
                if v and v[0] == 'ref' and v[2]:
                    tgt = json.loads(v[1])
                    if tgt == [1, '*'] and i == 0:
                        # a helper method of the same type: only its mod-set changes
                        callee = self.facts.fn(c.get('resolved') or path, required=False)
                        if callee is not None and callee.impl_adt and callee.impl_adt == self.fn.impl_adt:
                            from .modset import mod_fields
                            ms = mod_fields(self.facts, callee)
                            if '*' not in ms:
                                for k in list(st):
                                    kp = json.loads(k)
                                    if len(kp) >= 3 and kp[0] == 1 and kp[1] == '*' and isinstance(kp[2], list) and kp[2][2] in ms:
                                        self.kill_under(st, kp[:3])
                                continue
                    self.kill_under(st, tgt)
        return [(st, val, sub)]

    def step_block(self, node_state, b):
        st = dict(node_state)
        for i, s in enumerate(self.fn.blocks[b]['s']):
            self._pos = (b, i)
            self.assign(st, s)
        self._pos = None
        return st

    def succ_states(self, st, b):
        """apply the terminator; yields (succ block, state, label)"""
        t = self.fn.blocks[b]['t']
        k = t['t']
        if k == 'goto':
            yield t['target'], st, None
        elif k == 'switch':
            d = self.eval_op(st, t['discr'])
            targets = t['targets']
            oth = t['otherwise']
            dl = t['discr'][1] if t['discr'][0] != 'k' else None
            is_bool = t.get('dty') == 'bool'
            if d and d[0] == 'c':
                txt = d[1]
                val = None
                if txt in ('true', 'false'):
                    val = '1' if txt == 'true' else '0'
                else:
                    m = re.match(r'^(-?\d+)', txt.replace('const ', ''))
                    if m:
                        val = m.group(1)
                if val is not None:
                    for v, tb in targets:
                        if v == val:
                            yield tb, st, None
                            return
                    yield oth, st, None
                    return
            if d and d[0] == 'd' and st.get(d[1], (None,))[0] == 'popres':
                src = st[d[1]][1]
                for v, tb in targets:
                    s2 = dict(st)
                    s2[d[1]] = ('v', frozenset(['None' if v == '0' else 'Some']))
                    if v == '0':
                        s2[src] = ('e',)
                    yield tb, s2, None
                if self.fn.blocks[oth]['t']['t'] != 'unreachable':
                    s2 = dict(st)
                    listed = {v for v, _ in targets}
                    if listed == {'0'}:
                        s2[d[1]] = ('v', frozenset(['Some']))
                    elif listed == {'1'}:
                        s2[d[1]] = ('v', frozenset(['None']))
                        s2[src] = ('e',)
                    yield oth, s2, None
                return
            if d and d[0] == 'd':
                key = d[1]
                adt = self.adt_of_key(key)
                vs = self.variants_of(adt) if adt else None
                cur = st.get(key)
                if vs:
                    allowed = cur[1] if (cur and cur[0] == 'v') else frozenset(vs)
                    listed = set()
                    for v, tb in targets:
                        try:
                            name = vs[int(v)]
                        except (ValueError, IndexError):
                            name = None
                        if name is None:
                            yield tb, st, None
                            continue
                        listed.add(name)
                        if name in allowed:
                            s2 = dict(st)
                            s2[key] = ('v', frozenset([name]))
                            yield tb, s2, None
                    rest = frozenset(allowed) - listed
                    if rest:
                        if self.fn.blocks[oth]['t']['t'] != 'unreachable':
                            s2 = dict(st)
                            s2[key] = ('v', rest)
                            yield oth, s2, None
                    return
            if is_bool and dl is not None:
                dn = self.norm(st, dl)
                for v, tb in targets:
                    s2 = dict(st)
                    self._learn_bool(s2, dn, d, v != '0')
                    yield tb, s2, None
                s2 = dict(st)
                if len(targets) == 1:
                    self._learn_bool(s2, dn, d, targets[0][0] == '0')
                yield oth, s2, None
                return
            seen = set()
            for v, tb in targets:
                if tb not in seen:
                    seen.add(tb)
                    yield tb, st, None
            if oth not in seen:
                yield oth, st, None
        elif k == 'call':
            if t['target'] is not None:
                for s3, label in self.call_outcomes(st, b, t):
                    yield t['target'], s3, label
        elif k == 'drop':
            yield t['target'], st, None
        elif k == 'assert':
            yield t['target'], st, None
        elif k == 'other':
            for s in t.get('succ', []):
                yield s, st, None

    def _learn_bool(self, st, pl, d, truth):
        txt = 'true' if truth else 'false'
        if self.trackable(pl):
            st[pkey(pl)] = ('c', txt)
        if d and d[0] == 'same':
            st[d[1]] = ('c', txt)
        if d and d[0] == 'isempty' and truth:
            cur = st.get(d[1])
            st[d[1]] = ('q', ()) if (cur and cur[0] == 'q') else ('e',)
        if d and d[0] == 'isnonempty' and not truth:
            cur = st.get(d[1])
            st[d[1]] = ('q', ()) if (cur and cur[0] == 'q') else ('e',)
        if d and d[0] == 'isv':
            key, variant, sense = d[1], d[2], d[3]
            is_variant = (truth == sense)
            adt = self.adt_of_key(key)
            vs = self.variants_of(adt) if adt else None
            cur = st.get(key)
            allowed = cur[1] if (cur and cur[0] == 'v') else (frozenset(vs) if vs else None)
            if allowed is not None:
                if is_variant:
                    st[key] = ('v', frozenset([variant]))
                else:
                    st[key] = ('v', frozenset(allowed) - {variant})

    # ---- exploration
    def carried(self, st):
        """what survives from one activation of a &mut self method to the next: *self fields"""
        out = {}
        for k, v in st.items():
            kp = kp_of(k)
            if isinstance(kp[0], str):
                out[k] = v
                continue
            if len(kp) >= 3 and kp[0] == 1 and kp[1] == '*' and v[0] in ('c', 'v', 'q', 'e'):
                out[k] = v
        return out

    def on_return(self, st, b):
        """hook: state carried into the next activation, or None to end exploration here"""
        return self.carried(st)

    def explore(self, start_block=0, init=None, stop=None, reactivate=False):
        """Exploded graph from (start_block, init).
        stop(b, state_before_terminator) -> True: do not continue past block b (b is still a node)."""
        init = dict(init or {})
        g = Graph(self)
        root = g.node(start_block, init)
        g.root = root
        work = [root]
        while work:
            n = work.pop()
            if n in g.done:
                continue
            g.done.add(n)
            b, fst = g.nodes[n]
            if self.fn.blocks[b]['cleanup']:
                continue
            st = self.step_block(dict(fst), b)
            g.pre_term[n] = st
            if stop and stop(b, st):
                g.stopped.add(n)
                continue
            if reactivate and self.fn.blocks[b]['t']['t'] == 'return':
                carried = self.on_return(st, b)
                if carried is None:
                    continue
                m = g.node(0, carried)
                g.edges.setdefault(n, []).append(m)
                g.activation_edges.add((n, m))
                if m not in g.done:
                    work.append(m)
                continue
            for sb, s2, label in self.succ_states(st, b):
                if self.fn.blocks[sb]['cleanup']:
                    continue
                m = g.node(sb, s2)
                g.edges.setdefault(n, [])
                if m not in g.edges[n]:
                    g.edges[n].append(m)
                if label is not None:
                    g.labels[(n, m)] = label
                if m not in g.done:
                    work.append(m)
            if len(g.nodes) > self.max_nodes:
                raise Bound('more than %d (block,state) nodes in %s' % (self.max_nodes, self.fn.path))
        return g


_base_cache = {}


def _base_live(k, live):
    b = _base_cache.get(k)
    if b is None:
        kp = json.loads(k)
        b = kp[0] if isinstance(kp[0], int) else -2
        _base_cache[k] = b
    return b < 0 or b in live or b == 1 and True


def q_norm(segs):
    """canonical bounded form: runs of equal variant sets become (S,'one'),(S,'star') (non-emptiness is
    kept); more than 4 segments are over-approximated by (first segment, star of the union)"""
    out = []
    data = frozenset(['Item', 'Timestamped'])
    segs = [((s[0] | data) if (s[0] & data) else s[0], s[1]) for s in segs]
    for s in segs:
        if out and out[-1][0] == s[0]:
            if out[-1][1] == 'star':
                if s[1] == 'one' and (len(out) < 2 or out[-2][0] != s[0] or out[-2][1] != 'one'):
                    # star S then one S  ==  one S then star S (as a multiset-order abstraction of equal sets)
                    out[-1] = (s[0], 'one')
                    out.append((s[0], 'star'))
                continue
            # last is 'one'
            out.append((s[0], 'star'))
            continue
        out.append(s)
    if len(out) > 4:
        u = frozenset().union(*[s[0] for s in out])
        if out[0][1] == 'one':
            out = [out[0], (u, 'star')]
        else:
            out = [(u, 'star')]
    return tuple(out)


def q_pop(segs):
    """possible results of pop_front: list of (variant set or None for empty, remaining segments)"""
    if not segs:
        return [(None, ())]
    (vs, mult) = segs[0]
    if mult == 'one':
        return [(vs, segs[1:])]
    return [(vs, segs)] + q_pop(segs[1:])


class Graph:
    def __init__(self, interp):
        self.interp = interp
        self.fn = interp.fn
        self.nodes = []       # id -> (block, frozen state)
        self.index = {}
        self.edges = {}
        self.labels = {}
        self.done = set()
        self.stopped = set()
        self.pre_term = {}    # id -> state dict before the terminator
        self.activation_edges = set()
        self.root = 0

    def node(self, b, st):
        live = self.fn.live_in()[b]
        if -1 not in live:
            st = {k: v for k, v in st.items() if _base_live(k, live)}
        k = (b, freeze(st))
        i = self.index.get(k)
        if i is None:
            i = len(self.nodes)
            self.nodes.append(k)
            self.index[k] = i
        return i

    def block(self, n):
        return self.nodes[n][0]

    def state(self, n):
        return dict(self.nodes[n][1])

    def succ(self, n):
        return self.edges.get(n, [])

    def reachable(self, starts=(0,), avoid=None, avoid_edge=None):
        """node ids reachable from starts; `avoid(n)` true => n is visited but not expanded"""
        seen = set()
        st = list(starts)
        while st:
            n = st.pop()
            if n in seen:
                continue
            seen.add(n)
            if avoid and avoid(n):
                continue
            for m in self.succ(n):
                if avoid_edge and avoid_edge(n, m):
                    continue
                st.append(m)
        return seen

    def is_return(self, n):
        return n in self.done and self.fn.blocks[self.block(n)]['t']['t'] == 'return'

    def return_nodes(self):
        return [n for n in range(len(self.nodes)) if self.is_return(n)]

    def ret_value(self, n):
        st = self.pre_term.get(n, {})
        return st.get(pkey([0]))

    def path_to(self, target, starts=(0,), avoid=None, avoid_edge=None):
        """one shortest path (list of node ids) from starts to target, for reports"""
        from collections import deque
        prev = {s: None for s in starts}
        dq = deque(starts)
        while dq:
            n = dq.popleft()
            if n == target:
                out = []
                while n is not None:
                    out.append(n)
                    n = prev[n]
                return list(reversed(out))
            if avoid and avoid(n):
                continue
            for m in self.succ(n):
                if avoid_edge and avoid_edge(n, m):
                    continue
                if m not in prev:
                    prev[m] = n
                    dq.append(m)
        return None

    def describe_path(self, path):
        fn = self.fn
        out = []
        last = None
        for i, n in enumerate(path):
            b = self.block(n)
            at = fn.blocks[b]['t']['at']
            lab = self.labels.get((path[i - 1], n)) if i > 0 else None
            if lab:
                out.append('input=%s' % (lab,))
            if i > 0 and (path[i - 1], n) in self.activation_edges:
                out.append('[next activation]')
            ln = at.rsplit(':', 2)[1]
            if ln != last:
                out.append('L' + ln)
                last = ln
        return ' '.join(out)


def variant_summary(facts, fn, adt=SE, ret_adt=SE):
    """For a function whose first argument is (a reference to) an enum `adt` value: map each input
    variant to the set of variants of the returned enum `ret_adt`.  Derived from the callee's own MIR
    arms (e.g. StreamElement::map is *proven* variant preserving, not assumed).
    returns {'map': {V: set}, 'ret': None | tuple field index, 'all': variants of ret_adt} or None"""
    it = Interp(facts, fn)
    vs = it.variants_of(adt)
    if not vs:
        return None
    ret_ty = fn.locals[0]['ty']
    ret_field = None
    if ret_ty.startswith('('):
        parts = split_top(ret_ty[1:-1])
        for i, p_ in enumerate(parts):
            if p_.strip().startswith(ret_adt + '<') or p_.strip() == ret_adt:
                ret_field = i
        if ret_field is None:
            return None
    out = {}
    for v in vs:
        init = {}
        ty = fn.locals[1]['ty']
        if ty.startswith('&'):
            pseudo = ['$arg']
            it.key_adt[pkey(pseudo)] = adt
            init[pkey([1])] = ('ref', pkey(pseudo), False)
            init[pkey(pseudo)] = ('v', frozenset([v]))
        else:
            init[pkey([1])] = ('v', frozenset([v]))
        g = it.explore(0, init)
        res = set()
        for n in g.return_nodes():
            st = g.pre_term.get(n, {})
            if ret_field is None:
                rv = st.get(pkey([0]))
            else:
                rv = st.get(pkey([0, ['f', ret_field, str(ret_field)]]))
            if rv and rv[0] == 'v':
                res |= set(rv[1])
            else:
                return None
        out[v] = res
    return {'map': out, 'ret': ret_field, 'all': it.variants_of(ret_adt)}


def split_top(s):
    out, depth, cur = [], 0, ''
    for ch in s:
        if ch in '<([':
            depth += 1
        elif ch in '>)]':
            depth -= 1
        if ch == ',' and depth == 0:
            out.append(cur)
            cur = ''
        else:
            cur += ch
    if cur.strip():
        out.append(cur)
    return out
