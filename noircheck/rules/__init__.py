"""Rule modules register themselves with core.rule when imported."""
import importlib
import pkgutil

for m in pkgutil.iter_modules(__path__):
    importlib.import_module(__name__ + '.' + m.name)
