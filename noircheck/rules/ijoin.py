"""C08.R5: the interval join's window.  The property's last clause: the interval join outputs exactly the same-key pairs whose
timestamps satisfy  l - lower <= r <= l + upper.  Decided here, on the (helper-inlined) body of IntervalJoin::next, in the
three-point order domain (no timestamp is ever evaluated):

  prune    a right element is discarded only under  r <  l - lower       (r == l - lower still matches)
  match    a right element is paired   only under   r <= l + upper       (and exactly under it: r == l + upper matches)
  advance  a left element is consumed  only when    l + upper < last_seen  or the iteration ended
           (elements with ts == last_seen may still arrive: the operator itself asserts ts >= last_seen)
  keys     the right deque probed for a left element is the one of that element's key, and a right element is stored under
           its own key

Each is a necessary condition: with any other relation there is an input (timestamps on the boundary) whose join differs."""
import re

from ..core import rule, Inconclusive
from ..facts import AnchorMissing
from ..symex import render, strip
from ..pathcond import show_dnf, ALL, FLIP
from .. import q
from .timeorder import bool_closures, closure_cmp, cmp_rel_of

IJ = 'renoir::operator::interval_join::IntervalJoin'
OP = 'renoir::operator::Operator'


def _oriented(atom, is_bound):
    """for a cmp atom: (relation of the *other* operand to the bound operand, other, bound) or None"""
    if atom[0] != 'cmp':
        return None
    a, b, rel = atom[1], atom[2], atom[3]
    if is_bound(b) and not is_bound(a):
        return frozenset(rel), a, b
    if is_bound(a) and not is_bound(b):
        return frozenset(FLIP[r] for r in rel), b, a
    return None


def _recv(fn, sym, t):
    return render(strip(sym.operand(t['args'][0]))) if t['args'] else ''


@rule('C08', 'R5', 'interval join window: prune iff r < l-lower, match iff r <= l+upper, advance only when l+upper < last_seen or at the end of the iteration; probes and stores by the element\'s own key')
def c08_r5(ctx):
    facts = ctx.facts
    nx = facts.method(IJ, 'next', trait=OP)
    sym = q.sym(facts, nx)
    lowb = lambda x: 'lower_bound' in x
    upb = lambda x: 'upper_bound' in x
    pops = q.calls_suffix(nx, '::pop_front')
    right_pops = [(bi, t) for bi, t in pops if 'self.right' in _recv(nx, sym, t) or '.right' in _recv(nx, sym, t)]
    left_pops = [(bi, t) for bi, t in pops if re.search(r'self\.left\b', _recv(nx, sym, t)) and 'self.right' not in _recv(nx, sym, t)]
    if not left_pops:
        raise AnchorMissing('IntervalJoin::next never removes an element from `left` with pop_front')

    # --- prune: every removal from a right deque is guarded by r < l - lower (and nothing weaker)
    for bi, t in right_pops:
        dnf = q.cond_of_block(facts, nx, bi)
        ctx.inst('prune|%s' % t['at'], {'at': t['at'], 'condition': show_dnf(dnf)[:3]})
        for c in dnf:
            rels = [o for o in (_oriented(a, lowb) for a in c) if o]
            if not rels:
                ctx.viol('%s|prune-unguarded' % IJ, t['at'], 'a right element is discarded on a path that does not compare its timestamp with '
                         'l - lower_bound: pairs inside the interval are lost', {'clause': show_dnf([c])})
                break
            rel = frozenset.intersection(*[r for r, _, _ in rels])
            if rel - {'<'}:
                ctx.viol('%s|prune-rel' % IJ, t['at'], 'a right element is discarded when r {%s} l - lower_bound; the interval is inclusive, so only '
                         'r < l - lower may be discarded (a pair with r == l - lower would be lost)' % ''.join(sorted(rel)), {'clause': show_dnf([c])})
                break
    if not right_pops:
        ctx.note('no pruning of the right side found (only a memory matter, not a correctness one)')

    # --- match: the selection of the right elements paired with a left element
    found = False
    for suffix, keep_true in (('::take_while', True), ('::filter', True), ('::skip_while', False)):
        for bi, t, g in bool_closures(facts, nx, suffix):
            d, neg = closure_cmp(facts, g)
            if d is None:
                continue
            rel, a, b = cmp_rel_of(d, lambda x: not upb(x) and not lowb(x))
            if rel is None or not (upb(b) or lowb(b)):
                continue
            if neg:
                rel = frozenset(ALL - set(rel))
            if not keep_true:
                rel = frozenset(ALL - set(rel))
            bound = 'upper' if upb(b) else 'lower'
            found = found or bound == 'upper'
            ctx.inst('match|%s|%s' % (suffix.strip(':'), bound), {'at': t['at'], 'kept iff r {%s} l %s bound' % (''.join(sorted(rel)), bound): True, 'operands': [a, b]})
            want = frozenset(['<', '=']) if bound == 'upper' else frozenset(['>', '='])
            if rel != want:
                ctx.viol('%s|match-rel-%s' % (IJ, bound), t['at'], 'right elements are paired iff r {%s} l %s %s_bound; the property requires r %s l %s %s '
                         '(inclusive): pairs exactly on the boundary are %s' % (''.join(sorted(rel)), '+' if bound == 'upper' else '-', bound,
                                                                               '<=' if bound == 'upper' else '>=', '+' if bound == 'upper' else '-', bound,
                                                                               'lost' if not (want - rel) == frozenset() else 'spurious'), None)
    if not found:
        # loop form: the condition of the push into the output buffer
        pushes = [(bi, t) for bi, t in nx.calls() if (t['callee'].get('path') or '').rsplit('::', 1)[-1] in ('push_back', 'extend', 'push')
                  and 'self.buffer' in _recv(nx, sym, t)]
        for bi, t in pushes:
            dnf = q.cond_of_block(facts, nx, bi)
            for c in dnf:
                rels = [o for o in (_oriented(a, upb) for a in c) if o and 'last_seen' not in o[1]]
                if rels:
                    found = True
                    rel = frozenset.intersection(*[r for r, _, _ in rels])
                    ctx.inst('match|loop|%s' % t['at'], {'at': t['at'], 'paired iff r {%s} l + upper' % ''.join(sorted(rel)): True})
                    if rel != frozenset(['<', '=']):
                        ctx.viol('%s|match-rel-upper' % IJ, t['at'], 'right elements are paired iff r {%s} l + upper_bound; required r <= l + upper (inclusive)'
                                 % ''.join(sorted(rel)), {'clause': show_dnf([c])})
        if not found:
            raise Inconclusive('cannot find the comparison of a right timestamp with l + upper_bound in IntervalJoin::next')

    # --- advance: a left element is consumed only when nothing that could still match it can arrive
    for bi, t in left_pops:
        dnf = q.cond_of_block(facts, nx, bi)
        # only the paths that come through the matching phase (the final pop of the output buffer is another call)
        ctx.inst('advance|%s' % t['at'], {'at': t['at'], 'clauses': len(dnf), 'sample': show_dnf(dnf)[:2]})
        for c in dnf:
            # the iteration ended: the flag is set, or the element just received is the FlushAndRestart that sets it
            restart = any((a[0] == 'bool' and 'received_restart' in str(a[1]) and a[2] is True)
                          or (a[0] == 'is' and 'Operator::next(' in str(a[1]) and a[2] == 'FlushAndRestart') for a in c)
            rels = [o for o in (_oriented(a, lambda x: 'last_seen' in x) for a in c) if o and upb(o[1])]
            if restart:
                continue
            if not rels:
                ctx.viol('%s|advance-unguarded' % IJ, t['at'], 'a left element is consumed on a path that neither compares l + upper_bound with last_seen nor '
                         'is at the end of the iteration: right elements that arrive later are never paired with it', {'clause': show_dnf([c])})
                break
            rel = frozenset.intersection(*[r for r, _, _ in rels])
            if rel - {'<'}:
                ctx.viol('%s|advance-rel' % IJ, t['at'], 'a left element is consumed when l + upper_bound {%s} last_seen: an element with timestamp == last_seen can '
                         'still arrive (the operator only asserts ts >= last_seen), so a right element exactly at l + upper would miss its pair'
                         % ''.join(sorted(rel)), {'clause': show_dnf([c])})
                break

    # --- last_seen follows the input: written with the timestamp of the Timestamped / Watermark element just received, reset at the restart
    ws = [(bi, si, s) for bi, si, f, s in q.self_writes(nx, 'last_seen')]
    vals = []
    for bi, si, s in ws:
        vals.append(render(strip(sym.rvalue(s['rv']))))
    ctx.inst('last_seen|writes', {'values': vals})
    if not ws:
        raise AnchorMissing('IntervalJoin::next never writes last_seen')

    # --- keys: probe by the left element's key, store under the element's own key
    gm = [(bi, t) for bi, t in nx.calls() if (t['callee'].get('path') or '').endswith('::get_mut') or (t['callee'].get('path') or '').endswith('HashMap::<K, V, S, A>::get')]
    gm = [(bi, t) for bi, t in gm if 'self.right' in _recv(nx, sym, t)]
    for bi, t in gm:
        k = render(strip(sym.operand(t['args'][1])))
        ctx.inst('probe-key|%s' % t['at'], {'key': k})
        if 'left' not in k:
            ctx.viol('%s|probe-key' % IJ, t['at'], 'the right side is probed with `%s`, not with the key of the left element being matched' % k, None)
    en = [(bi, t) for bi, t in nx.calls() if (t['callee'].get('path') or '').endswith('::entry') and 'self.right' in _recv(nx, sym, t)]
    for bi, t in en:
        k = render(strip(sym.operand(t['args'][1])))
        ctx.inst('store-key|%s' % t['at'], {'key': k})
        if re.search(r'self\.(?!prev\b)', k) or 'Operator::next(' not in k:
            ctx.viol('%s|store-key' % IJ, t['at'], 'a right element is stored under `%s`, not under its own key' % k, None)
    if not gm or not en:
        raise AnchorMissing('IntervalJoin::next: right side is not a per-key map probed with get_mut and filled through entry')
