"""Block output rules (End, RoutingEnd, Batcher, NextStrategy): C03.R1/R2, C18.R2/R4, C04.R3, C16.R2, C02.R1, C09.R2."""
from ..core import rule, Inconclusive
from ..facts import AnchorMissing, SE, is_local
from ..symex import render, strip, find_calls
from ..pathcond import show_dnf
from .. import q

OP = 'renoir::operator::Operator'
END = 'renoir::operator::end::End'
REND = 'renoir::operator::route::RoutingEnd'
BATCHER = 'renoir::block::batcher::Batcher'
ENQ = BATCHER + '::<Out>::enqueue'
FLUSH = BATCHER + '::<Out>::flush'
BEND = BATCHER + '::<Out>::end'
NS = 'renoir::block::next_strategy::NextStrategy'
NS_INDEX = NS + '::<Out, IndexFn>::index'
DATA = {'Item', 'Timestamped'}
CONTROL = {'Watermark', 'Terminate', 'FlushAndRestart'}


def in_cycle(fn, b):
    for s in fn.succ(b):
        if b in fn.reachable_from(s):
            return True
    return False


def call_table(facts, fn, callee):
    """for each call site of `callee` in fn: (block, terminator, DNF clauses)"""
    out = []
    for bi, t in q.calls(fn, callee):
        out.append((bi, t, q.op_cond_of_block(facts, fn, bi)))
    return out


def foreach_sites(facts, fn, callee):
    """`<iter over X>.for_each(|e| callee(e..))` written as an adapter instead of a `for` loop: (block, terminator, DNF of the
    for_each call, rendered receiver chain) for closures that call `callee` unconditionally"""
    out = []
    sym = q.sym(facts, fn)
    for bi, t in fn.calls():
        if (t['callee'].get('path') or '') != 'std::iter::Iterator::for_each':
            continue
        for a in t['args'][1:]:
            if a[0] == 'k' or not is_local(a[1]):
                continue
            cd = fn.locals[a[1][0]].get('closure')
            g = facts.fn(cd, required=False) if cd else None
            if g is None:
                continue
            sites = q.calls(g, callee)
            if not sites:
                continue
            if all(all(len(c) == 0 for c in q.cond_of_block(facts, g, gb)) for gb, _ in sites):
                out.append((bi, t, q.op_cond_of_block(facts, fn, bi), render(strip(sym.operand(t['args'][0])))))
    return out


def inputs_of(dnf):
    vs = set()
    for c in dnf:
        for a in c:
            if a[0] == 'is' and a[1] == '<input>':
                vs.add(a[2])
    return vs


def loop_atoms(c):
    return [a for a in c if a[0] == 'is' and 'Iterator::next' in a[1] and a[2] == 'Some']


def other_atoms(c):
    out = []
    for a in c:
        if a[0] == 'is' and a[1] == '<input>':
            continue
        if a[0] == 'is' and 'Iterator::next' in a[1]:
            continue
        out.append(a)
    return out


def find_by_is_match(facts, fn):
    """every closure handed to Iterator::find in `fn` returns the (un-negated) result of the route filter's is_match"""
    ok = False
    for bi, t in fn.calls():
        if (t['callee'].get('path') or '') != 'std::iter::Iterator::find':
            continue
        for a in t['args'][1:]:
            if a[0] == 'k' or not is_local(a[1]):
                continue
            cd = fn.locals[a[1][0]].get('closure')
            g = facts.fn(cd, required=False) if cd else None
            if g is None:
                return False
            rets = [(t2['callee'].get('path') or '') for _, t2 in g.calls() if t2['dest'] == [0]]
            if len(rets) == 1 and rets[0].endswith('::is_match'):
                ok = True
            else:
                return False
    return ok


def end_like(ctx, adt, route):
    facts = ctx.facts
    fn = facts.method(adt, 'next', trait=OP)
    sym = q.sym(facts, fn)
    name = adt.split('::')[-1]
    enq = call_table(facts, fn, ENQ)
    if not enq:
        raise AnchorMissing('%s::next does not call Batcher::enqueue' % name)
    covered = set()
    for bi, t, dnf in enq:
        ins = inputs_of(dnf)
        covered |= ins
        recv = render(strip(sym.operand(t['args'][0])))
        ctx.inst('%s|enqueue@%s' % (name, '+'.join(sorted(ins))), {'at': t['at'], 'inputs': sorted(ins), 'conditions': show_dnf(dnf),
                                                                    'sender': recv[:300], 'in loop': in_cycle(fn, bi)})
        key = '%s|enqueue|%s' % (fn.path, '+'.join(sorted(ins)))
        if ins & DATA and ins & CONTROL:
            ctx.viol(key + '|mixed', t['at'], 'one enqueue site serves both data and control elements', None)
        for c in dnf:
            extra = other_atoms(c)
            v = inputs_of([c])
            if v <= DATA:
                if route:
                    # route: enqueue guarded only by the route predicate `is_match`, either tested in a loop over the routes or as
                    # the predicate of `find` over the routes in their stored order (first match wins in both forms)
                    def first_match(a):
                        if a[0] == 'bool' and 'is_match' in a[1] and a[2] is True:
                            return True
                        if a[0] == 'is' and a[2] == 'Some' and 'Iterator::find(' in a[1] and 'endpoints' in a[1] and 'rev(' not in a[1]:
                            return find_by_is_match(facts, fn)
                        return False
                    bad = [a for a in extra if not first_match(a)]
                else:
                    bad = extra
                if bad:
                    ctx.viol(key + '|conditional-data', t['at'],
                             '%s::next enqueues a data element only under extra conditions %s: some elements would be dropped at the '
                             'block boundary' % (name, show_dnf([frozenset(bad)])), None)
            else:
                allowed = []
                for a in extra:
                    if v == {'Terminate'} and a[0] == 'bool' and 'feedback_id' in a[1] and a[2] is False:
                        allowed.append(a)
                bad = [a for a in extra if a not in allowed]
                if bad:
                    ctx.viol(key + '|conditional-control', t['at'],
                             '%s::next skips %s for some replicas under %s: watermarks and end markers must reach every connected '
                             'replica (only Terminate towards the feedback block may be skipped)' % (name, '/'.join(sorted(v)), show_dnf([frozenset(bad)])), None)
                if len(loop_atoms(c)) < 2:
                    ctx.viol(key + '|control-not-broadcast', t['at'],
                             '%s::next enqueues a control element outside the double loop over every downstream block and every replica index' % name, None)
        if ins <= DATA:
            if route:
                if in_cycle(fn, bi):
                    ctx.viol(key + '|route-falls-through', t['at'],
                             'RoutingEnd::next can enqueue the same data element for more than one route (no break after the first match)', None)
            else:
                # sender = senders[ indexes[ index(strategy,item) % len(indexes) ] ]
                x = sym.operand(t['args'][0])
                rems = []

                def walk(y):
                    if isinstance(y, tuple):
                        if y and y[0] == 'bin' and y[1] == 'Rem':
                            rems.append(y)
                        for z in y[1:]:
                            if isinstance(z, tuple):
                                if z and isinstance(z[0], str):
                                    walk(z)
                                else:
                                    for w in z:
                                        walk(w)
                walk(x)
                ok = False
                for r in rems:
                    a, b = render(strip(r[2])), render(strip(r[3]))
                    if 'index(&self.next_strategy' in a and 'len(' in b and 'indexes' in b:
                        ok = True
                if not ok:
                    ctx.viol(key + '|replica-choice', t['at'],
                             'End::next does not select the destination replica as indexes[strategy.index(item) %% indexes.len()] '
                             '(sender expression: %s)' % recv[:200], None)
                if not in_cycle(fn, bi) or not any('block_senders' in a[1] for c in dnf for a in loop_atoms(c)):
                    ctx.viol(key + '|not-per-block', t['at'],
                             'End::next does not deliver a data element once per downstream block (loop over self.block_senders)', None)
    missing = (DATA | CONTROL) - covered
    if missing:
        ctx.viol('%s|never-enqueued|%s' % (fn.path, '+'.join(sorted(missing))), fn.at,
                 '%s::next never enqueues %s elements' % (name, '/'.join(sorted(missing))), None)
    if 'FlushBatch' in covered:
        ctx.viol('%s|flushbatch-sent' % fn.path, fn.at, '%s::next sends FlushBatch downstream (it is a block-local request)' % name, None)
    return fn


@rule('C03', 'R2', 'End / RoutingEnd routing table: data to one replica per downstream block chosen by the strategy, control to every replica')
def c03_r2(ctx):
    end_like(ctx, END, False)
    end_like(ctx, REND, True)
    # setup_senders: sorted before grouping; OnlyOne groups are singletons; All gives one group per sender
    facts = ctx.facts
    ss = facts.method(END, 'setup_senders')
    sorts = q.calls_suffix(ss, 'glidesort::sort_by_key') + q.calls_suffix(ss, 'sort_unstable_by_key') + q.calls_suffix(ss, 'sort_by_key')
    ctx.inst('End::setup_senders|sort', {'sort calls': [t['at'] for _, t in sorts]})
    if not sorts or not all(ss.dominates(sorts[0][0], bi) for bi, t in ss.calls() if 'fold' in (t['callee'].get('path') or '') or 'collect' in (t['callee'].get('path') or '')):
        ctx.viol('%s|unsorted-senders' % ss.path, ss.at,
                 'End::setup_senders groups the senders before sorting them by endpoint: replica index i would not address '
                 'the same replica on every producer', None)


@rule('C17', 'R4', 'End / RoutingEnd broadcast every watermark to every connected replica')
def c17_r4(ctx):
    end_like(ctx, END, False)
    end_like(ctx, REND, True)


@rule('C09', 'R2', 'route: an element goes to the first matching route only; unmatched elements are dropped; routes keep insertion order')
def c09_r2(ctx):
    end_like(ctx, REND, True)
    facts = ctx.facts
    se = facts.method(REND, 'setup_endpoints')
    sym = q.sym(facts, se)
    drains = q.calls_suffix(se, '::drain')
    pushes = [(bi, t) for bi, t in se.calls() if (t['callee'].get('path') or '').endswith('Vec::<T, A>::push')]
    ctx.inst('RoutingEnd::setup_endpoints', {'drain': [t['at'] for _, t in drains], 'push': [t['at'] for _, t in pushes]})
    if not drains or not pushes:
        raise AnchorMissing('setup_endpoints must drain self.routes and push endpoints')
    for bi, t in pushes:
        recv = render(strip(sym.operand(t['args'][0])))
        if 'endpoints' not in recv:
            continue
        if not in_cycle(se, bi):
            ctx.viol('%s|single-endpoint' % se.path, t['at'], 'setup_endpoints pushes an endpoint outside the loop over the routes', None)
    bad = [t for _, t in se.calls() if (t['callee'].get('path') or '').rsplit('::', 1)[-1] in ('insert', 'push_front', 'swap_remove', 'reverse')
           and 'endpoints' in render(strip(sym.operand(t['args'][0])))]
    if bad:
        ctx.viol('%s|route-order' % se.path, bad[0]['at'], 'routes are not appended in insertion order (first-match semantics depends on it)', None)


@rule('C18', 'R2', 'End / RoutingEnd flush every batcher on FlushAndRestart and FlushBatch, and close every batcher on Terminate')
def c18_r2(ctx):
    flush_rule(ctx)


@rule('C04', 'R3', 'End closes every channel on Terminate (after broadcasting it) and only then')
def c04_r3(ctx):
    flush_rule(ctx)


def flush_rule(ctx):
    facts = ctx.facts
    for adt in (END, REND):
        fn = facts.method(adt, 'next', trait=OP)
        name = adt.split('::')[-1]
        sym = q.sym(facts, fn)
        fl = call_table(facts, fn, FLUSH)
        en = call_table(facts, fn, BEND)
        ins_f = set()
        for bi, t, dnf in fl:
            ins_f |= inputs_of(dnf)
            ctx.inst('%s|flush' % name, {'at': t['at'], 'inputs': sorted(inputs_of(dnf)), 'conditions': show_dnf(dnf)})
            for c in dnf:
                if other_atoms(c):
                    ctx.viol('%s|conditional-flush' % fn.path, t['at'], '%s::next flushes only under %s' % (name, show_dnf([frozenset(other_atoms(c))])), None)
                if not any('self.senders' in a[1] for a in loop_atoms(c)):
                    ctx.viol('%s|flush-not-all' % fn.path, t['at'], '%s::next does not flush inside a loop over all of self.senders' % name, None)
            if not in_cycle(fn, bi):
                ctx.viol('%s|flush-once' % fn.path, t['at'], '%s::next flushes a single batcher, not every one' % name, None)
        for bi, t, dnf, chain in foreach_sites(facts, fn, FLUSH):
            # iterator-adapter form of the same loop
            ins_f |= inputs_of(dnf)
            ctx.inst('%s|flush' % name, {'at': t['at'], 'inputs': sorted(inputs_of(dnf)), 'conditions': show_dnf(dnf), 'for_each over': chain[:100]})
            for c in dnf:
                if other_atoms(c):
                    ctx.viol('%s|conditional-flush' % fn.path, t['at'], '%s::next flushes only under %s' % (name, show_dnf([frozenset(other_atoms(c))])), None)
            if 'self.senders' not in chain or any(x in chain for x in ('::take(', '::skip(', '::filter(', '::step_by(', '::take_while(', '::skip_while(')):
                ctx.viol('%s|flush-not-all' % fn.path, t['at'], '%s::next does not flush every element of self.senders (for_each over `%s`)' % (name, chain[:120]), None)
        if ins_f != {'FlushAndRestart', 'FlushBatch'}:
            ctx.viol('%s|flush-inputs' % fn.path, fn.at,
                     '%s::next flushes its batchers on %s, required exactly on FlushAndRestart and FlushBatch: buffered elements '
                     'would be withheld past the end of an iteration / an idle period' % (name, sorted(ins_f)), None)
        ins_e = set()
        for bi, t, dnf in en:
            ins_e |= inputs_of(dnf)
            ctx.inst('%s|end' % name, {'at': t['at'], 'inputs': sorted(inputs_of(dnf)), 'conditions': show_dnf(dnf)})
            for c in dnf:
                if other_atoms(c):
                    ctx.viol('%s|conditional-end' % fn.path, t['at'], '%s::next closes a batcher only under %s' % (name, show_dnf([frozenset(other_atoms(c))])), None)
                if not any('drain(&self.senders' in a[1] and 'RangeFull' in a[1] for a in loop_atoms(c)):
                    ctx.viol('%s|end-not-all' % fn.path, t['at'], '%s::next does not close every batcher (loop over self.senders.drain(..))' % name, None)
            # after the broadcast: every enqueue site for Terminate dominates... (enqueue loop precedes)
            for ebi, et, ednf in call_table(facts, fn, ENQ):
                if 'Terminate' in inputs_of(ednf) and ebi in fn.reachable_from(bi):
                    ctx.viol('%s|end-before-broadcast' % fn.path, t['at'], '%s::next can enqueue after closing the batchers' % name, None)
        if ins_e != {'Terminate'}:
            ctx.viol('%s|end-inputs' % fn.path, fn.at,
                     '%s::next closes its batchers on %s, required exactly on Terminate' % (name, sorted(ins_e)), None)


@rule('C03', 'R1', 'NextStrategy::index: OnlyOne/All -> 0, Random -> rng, GroupBy -> keyer(message); no wildcard arm')
def c03_r1(ctx):
    facts = ctx.facts
    fn = facts.fn(NS_INDEX)
    p = q.pe(facts, fn)
    sym = q.sym(facts, fn)
    rets = []
    # every block that writes _0
    for bi, blk in enumerate(fn.blocks):
        if blk['cleanup']:
            continue
        for s in blk['s']:
            if s['k'] == 'assign' and s['lhs'] == [0]:
                rets.append((bi, render(strip(sym.rvalue(s['rv']))), s['at']))
        t = blk['t']
        if t['t'] == 'call' and t['dest'] == [0]:
            rets.append((bi, render(strip(('call', t['callee'].get('path'), tuple(sym.operand(a) for a in t['args']), t['callee'].get('resolved') or ''))), t['at']))
    table = {}
    for bi, val, at in rets:
        dnf = q.cond_of_block(facts, fn, bi)
        for c in dnf:
            for a in c:
                if a[0] == 'is':
                    table.setdefault(a[2], set()).add(val)
                elif a[0] == 'isin':
                    for v in a[2]:
                        table.setdefault(v, set()).add(val)
    ctx.inst('NextStrategy::index', {'table': {k: sorted(v) for k, v in table.items()}})
    exp = {'OnlyOne': lambda v: v == '0_usize', 'All': lambda v: v == '0_usize',
           'Random': lambda v: 'generate' in v and 'tls_rng' in v or 'Rng::generate' in v,
           'GroupBy': lambda v: ('arg%d' % fn.argc) in v and ('call' in v.lower() or 'Fn' in v)}    # keyer(<the element parameter>)
    for var, pred in exp.items():
        vals = table.get(var)
        if not vals:
            ctx.viol('%s|missing|%s' % (fn.path, var), fn.at, 'NextStrategy::index has no arm for %s' % var, None)
            continue
        if not all(pred(v) for v in vals):
            ctx.viol('%s|arm|%s' % (fn.path, var), fn.at,
                     'NextStrategy::index returns `%s` for %s' % (sorted(vals), var), None)


@rule('C16', 'R2', 'Batcher keeps order: enqueue appends, flush/end ship the whole buffer, Single sends immediately')
def c16_r2(ctx):
    batcher_rule(ctx)


@rule('C02', 'R1', 'Batcher never drops an element: every enqueue path appends to the buffer or sends; flush ships the swapped-out batch')
def c02_r1(ctx):
    batcher_rule(ctx)


@rule('C18', 'R4', 'Batcher flush triggers: Adaptive on len >= n or elapsed > max_delay, Fixed on len >= n, Single immediately')
def c18_r4(ctx):
    batcher_rule(ctx, triggers=True)


def batcher_rule(ctx, triggers=False):
    facts = ctx.facts
    enq = facts.fn(ENQ)
    fl = facts.fn(FLUSH)
    en = facts.fn(BEND)
    sym = q.sym(facts, enq)
    # (1) on every path of enqueue the message is pushed to self.buffer or wrapped and sent
    p = q.pe(facts, enq)
    rets = p.paths(lambda b, st: enq.blocks[b]['t']['t'] == 'return')
    pushes = [(bi, t) for bi, t in enq.calls() if (t['callee'].get('path') or '').endswith('Vec::<T, A>::push')]
    sends = q.calls(enq, 'renoir::network::network_channel::NetworkSender::<Out>::send')
    consume_blocks = {bi for bi, _ in pushes} | {bi for bi, _ in sends}
    ctx.inst('Batcher::enqueue|consume', {'push sites': [t['at'] for _, t in pushes], 'send sites': [t['at'] for _, t in sends],
                                          'return paths': len(rets)})
    # a return reachable from entry avoiding all consume blocks = an element dropped
    reach = enq.reachable_from(0, avoid=consume_blocks)
    if any(enq.blocks[b]['t']['t'] == 'return' for b in reach):
        ctx.viol('%s|drops' % enq.path, enq.at,
                 'Batcher::enqueue has a path to return that neither pushes the element into the buffer nor sends it', None)
    # a direct send of the new element is only legal in Single mode: in a buffered mode it would overtake the
    # elements that are still waiting in the buffer (the mode of a Batcher never changes)
    for bi, t in sends:
        dnf = q.cond_of_block(facts, enq, bi)
        modes = sorted({a[2] for c in dnf for a in c if a[0] == 'is' and 'mode' in a[1]})
        ctx.inst('Batcher::enqueue|direct send', {'at': t['at'], 'modes': modes})
        if modes != ['Single']:
            ctx.viol('%s|send-bypasses-buffer' % enq.path, t['at'],
                     'Batcher::enqueue sends an element directly in mode %s: elements still waiting in the buffer are overtaken, so the '
                     'consumer receives them in a different order than they were produced' % (modes or ['?']), None)
    for f_ in (enq, fl, en):
        for bi, si, fld, s_ in q.self_writes(f_, 'mode'):
            ctx.viol('%s|mode-changes' % f_.path, s_['at'], 'the batch mode of a Batcher is changed after construction', None)
    for bi, t in pushes:
        recv = render(strip(sym.operand(t['args'][0])))
        val = render(strip(sym.operand(t['args'][1])))
        if recv != 'self.buffer' or val != 'arg%d' % enq.argc:      # the element parameter, by position
            ctx.viol('%s|push-target' % enq.path, t['at'], 'Batcher::enqueue pushes `%s` into `%s`' % (val, recv), None)
    for f in (enq, fl, en):
        s2 = q.sym(facts, f)
        for bi, t in f.calls():
            m = (t['callee'].get('path') or '').rsplit('::', 1)[-1]
            if m in ('insert', 'push_front', 'pop', 'swap_remove', 'remove', 'reverse', 'truncate', 'clear', 'sort', 'retain', 'dedup') and t['args']:
                recv = render(strip(s2.operand(t['args'][0])))
                if 'buffer' in recv or 'batch' in recv:
                    ctx.viol('%s|reorders|%s' % (f.path, m), t['at'], '%s applies `%s` to the batch buffer: order or content of a batch changes' % (f.path, m), None)
    # (2) flush: the swapped-out batch is what is sent
    sf = q.sym(facts, fl)
    sw = q.calls(fl, 'std::mem::swap')
    snd = q.calls(fl, 'renoir::network::network_channel::NetworkSender::<Out>::send')
    ctx.inst('Batcher::flush', {'swap': [t['at'] for _, t in sw], 'send': [t['at'] for _, t in snd]})
    if len(snd) != 1:
        ctx.viol('%s|send-count' % fl.path, fl.at, 'Batcher::flush must send exactly one batch message (found %d send sites)' % len(snd), None)
    for bi, t in snd:
        msg = render(strip(sf.operand(t['args'][1])))
        if 'new_batch' not in msg:
            ctx.viol('%s|not-batch' % fl.path, t['at'], 'Batcher::flush sends `%s`' % msg, None)
        dnf = q.cond_of_block(facts, fl, bi)
        extra = [a for c in dnf for a in c if not (a[0] == 'bool' and 'is_empty' in a[1]) and a[0] != 'cmp']
        if extra:
            ctx.viol('%s|conditional-send' % fl.path, t['at'], 'Batcher::flush sends only under %s' % show_dnf(dnf), None)
        if sw and not fl.dominates(sw[0][0], bi):
            ctx.viol('%s|send-before-swap' % fl.path, t['at'], 'Batcher::flush sends before swapping the buffer out', None)
    if not sw:
        # alternative idioms: mem::take / mem::replace
        alt = q.calls(fl, 'std::mem::take', 'std::mem::replace')
        if not alt:
            ctx.viol('%s|no-swap' % fl.path, fl.at, 'Batcher::flush does not move the buffer out (mem::swap/take/replace)', None)
    # (3) end sends the remaining buffer
    se_ = q.sym(facts, en)
    snd = q.calls(en, 'renoir::network::network_channel::NetworkSender::<Out>::send')
    ctx.inst('Batcher::end', {'send': [t['at'] for _, t in snd]})
    if len(snd) != 1 or 'self.buffer' not in render(strip(se_.operand(snd[0][1]['args'][1]))):
        ctx.viol('%s|end-send' % en.path, en.at, 'Batcher::end must send the remaining self.buffer as one batch', None)
    if triggers:
        # decision table of the calls to flush inside enqueue
        tab = {}
        for bi, t in q.calls(enq, FLUSH):
            dnf = q.cond_of_block(facts, enq, bi)
            for c in dnf:
                mode = [a[2] for a in c if a[0] == 'is' and 'mode' in a[1]]
                tab.setdefault(mode[0] if mode else '?', []).append(frozenset(a for a in c if not (a[0] == 'is' and 'mode' in a[1])))
        shown = {k: show_dnf(v) for k, v in tab.items()}
        ctx.inst('Batcher::enqueue|flush-triggers', {'table': shown})
        fx = tab.get('Fixed', [])
        ad = tab.get('Adaptive', [])

        def has_len(c):
            return any(a[0] == 'cmp' and 'len(&self.buffer)' in (a[1] + a[2]) and 'get' in (a[1] + a[2]) for a in c)

        def len_rel_ok(c):
            for a in c:
                if a[0] == 'cmp' and 'len(&self.buffer)' in (a[1] + a[2]):
                    first_is_len = 'len(&self.buffer)' in a[1]
                    want = frozenset(['>', '=']) if first_is_len else frozenset(['<', '='])
                    return a[3] == want
            return False
        if not fx or not all(has_len(c) and len_rel_ok(c) for c in fx):
            ctx.viol('%s|fixed-trigger' % enq.path, enq.at, 'Fixed mode must flush exactly when buffer.len() >= n (table: %s)' % shown.get('Fixed'), None)
        if not any(has_len(c) and len_rel_ok(c) for c in ad):
            ctx.viol('%s|adaptive-size-trigger' % enq.path, enq.at, 'Adaptive mode must flush when buffer.len() >= n (table: %s)' % shown.get('Adaptive'), None)
        def age_atom(a):
            # the age of the buffer since `last_send`: `last_send.elapsed()` or `now.duration_since(last_send)` - any form
            txt = str(a[1]) + ' ' + (str(a[2]) if len(a) > 2 else '')
            return a[0] in ('bool', 'cmp') and 'last_send' in txt and ('elapsed' in txt or 'duration_since' in txt or 'Sub(' in txt)
        if not any(any(age_atom(a) for a in c) for c in ad):
            ctx.viol('%s|adaptive-timeout-trigger' % enq.path, enq.at,
                     'Adaptive mode lost its timeout trigger (last_send.elapsed() > max_delay): a slow stream would be withheld '
                     'until the batch fills (table: %s)' % shown.get('Adaptive'), None)
        # `last_send` is the time of the last FLUSH: it may be written only where the buffer is shipped (flush itself, or a path of
        # enqueue that sends).  Refreshing it on every enqueued message turns the age test into an idle-gap test: a steady trickle
        # slower than n per max_delay is then withheld until the stream pauses or ends.
        ships = [sb for sb, _ in sends] + [sb for sb, _ in q.calls(enq, FLUSH)]
        for wb, si, fld, ws in q.self_writes(enq, 'last_send'):
            on_send_path = any(enq.dominates(sb, wb) or enq.post_dominates(sb, wb) for sb in ships)
            ctx.inst('Batcher::enqueue|last_send write|%s' % ws['at'], {'on a sending path': bool(on_send_path)})
            if not on_send_path:
                ctx.viol('%s|last-send-refreshed' % enq.path, ws['at'],
                         'Batcher::enqueue updates `last_send` on a path that does not ship the buffer: the Adaptive age test then measures the gap '
                         'between two messages, not the age of the oldest buffered one, and a slow steady stream is withheld indefinitely', None)
        single_sends = [t for bi, t in sends if q.cond_has(q.cond_of_block(facts, enq, bi), lambda a: a[0] == 'is' and a[2] == 'Single')]
        if not single_sends:
            ctx.viol('%s|single' % enq.path, enq.at, 'Single mode does not send the element immediately', None)
