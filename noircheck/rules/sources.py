"""Source rules: C15.R1-R4 and C18.R3b (ChannelSource idle table)."""
from ..core import rule, Inconclusive
from ..facts import AnchorMissing, SE, is_local
from ..symex import render, strip
from ..pathcond import show_dnf, FLIP
from .. import q

SRC = 'renoir::operator::source::Source'
OP = 'renoir::operator::Operator'
REPL = 'renoir::block::Replication'
FILE = 'renoir::operator::source::file::FileSource'
CSV = 'renoir::operator::source::csv::CsvSource'
PAR = 'renoir::operator::source::parallel_iterator::ParallelIteratorSource'
BUILTIN_SOURCES = {
    'renoir::operator::source::file::FileSource': 'Unlimited',
    'renoir::operator::source::csv::CsvSource': 'Unlimited',
    'renoir::operator::source::parallel_iterator::ParallelIteratorSource': 'Unlimited',
    'renoir::operator::source::iterator::IteratorSource': 'One',
    'renoir::operator::source::channel::ChannelSource': 'One',
}


def walk(x, fn, parent=None):
    if not isinstance(x, tuple):
        return
    fn(x, parent)
    for y in x[1:]:
        if isinstance(y, tuple):
            if y and isinstance(y[0], str):
                walk(y, fn, x)
            else:
                for z in y:
                    walk(z, fn, x)


@rule('C15', 'R1', 'parallel sources partition by the global replica index over the global replica count (never the per-host replica id)')
def c15_r1(ctx):
    facts = ctx.facts
    for adt in (FILE, CSV, PAR):
        su = facts.method(adt, 'setup', trait=OP)
        sym = q.sym(facts, su)
        exprs = []
        for bi, blk in enumerate(su.blocks):
            if blk['cleanup']:
                continue
            for s in blk['s']:
                if s['k'] == 'assign' and s['rv']['r'] == 'bin' and s['rv']['op'] in ('Mul', 'MulWithOverflow', 'Div', 'Eq', 'Ne'):
                    exprs.append((s['at'], s['rv']['op'], render(strip(sym.rvalue(s['rv'])))))
            t = blk['t']
            if t['t'] == 'call' and ('generate' in (t['callee'].get('path') or '')):
                exprs.append((t['at'], 'call', render(strip(('call', t['callee']['path'], tuple(sym.operand(a) for a in t['args']), '')))))
        idx = [e for e in exprs if 'global_id' in e[2]]
        cnt = [e for e in exprs if 'replicas' in e[2] and 'len' in e[2]]
        bad = [e for e in exprs if 'replica_id' in e[2] or 'host_id' in e[2] or 'coord' in e[2].replace('coord.block', '')]
        ctx.inst(adt.split('::')[-1] + '::setup', {'index expressions': [e[2][:120] for e in idx][:3], 'count expressions': [e[2][:120] for e in cnt][:3]})
        if not idx or not cnt:
            ctx.viol('%s|partition-provenance' % su.path, su.at,
                     '%s::setup does not derive its partition from metadata.global_id and metadata.replicas.len()' % adt.split('::')[-1], None)
        if bad:
            ctx.viol('%s|partition-by-local-id' % su.path, bad[0][0],
                     '%s::setup partitions with a per-host identity (`%s`): replica ids repeat across hosts, so parts of the input '
                     'would be read twice and others never' % (adt.split('::')[-1], bad[0][2][:160]), None)


@rule('C15', 'R2', 'non-parallel sources run on one replica: replication() is the constant One and Clone::clone cannot return')
def c15_r2(ctx):
    facts = ctx.facts
    for adt, want in sorted(BUILTIN_SOURCES.items()):
        rp = facts.method(adt, 'replication', trait=SRC)
        rets = [s['rv']['v'] for bi, s in q.aggregates(rp, REPL) if s['lhs'] == [0]]
        ctx.inst(adt.split('::')[-1] + '::replication', {'returns': rets, 'expected': want})
        if rets != [want]:
            ctx.viol('%s|replication' % rp.path, rp.at, '%s::replication returns %s, expected the constant Replication::%s' % (adt.split('::')[-1], rets, want), None)
        if want == 'One':
            cl = [f for f in facts.impl_methods('std::clone::Clone', 'clone') if f.impl_adt == adt]
            if not cl:
                # no Clone impl at all is fine only if the type is not required to be Clone (Operator requires it)
                raise AnchorMissing('no Clone impl for %s' % adt)
            can_return = bool(cl[0].return_blocks()) and any(b in cl[0].reachable_from(0) for b in cl[0].return_blocks())
            ctx.inst(adt.split('::')[-1] + '::clone', {'can return': can_return})
            if can_return:
                ctx.viol('%s|cloneable' % cl[0].path, cl[0].at,
                         '%s can be cloned: if the block were ever replicated every replica would emit the whole input' % adt.split('::')[-1], None)


@rule('C15', 'R3', 'file/CSV replica boundaries agree: same terminator, end computed from the unaligned start, inclusive continue + unconditional discard')
def c15_r3(ctx):
    facts = ctx.facts
    # ---- CSV
    su = facts.method(CSV, 'setup', trait=OP)
    sym = q.sym(facts, su)
    ru = [(bi, t) for bi, t in su.calls() if (t['callee'].get('path') or '').endswith('BufRead::read_until')]
    if len(ru) < 2:
        raise AnchorMissing('CsvSource::setup: expected read_until calls for start and end alignment')
    terms = [(t['at'], q.base_local(su, t['args'][1]), render(strip(sym.operand(t['args'][1])))) for bi, t in ru]
    ctx.inst('CsvSource::setup|terminators', {'read_until terminators': [(a, r) for a, _, r in terms]})
    if len({(l, r) for _, l, r in terms}) != 1:
        ctx.viol('%s|terminator-mismatch' % su.path, ru[0][1]['at'],
                 'CsvSource::setup aligns record boundaries with different terminators %s: the end of replica k and the start of '
                 'replica k+1 would disagree' % [r for _, _, r in terms], None)
    # `end = start + range_size` must read the start that has not been advanced by the alignment
    adds = []
    for bi, blk in enumerate(su.blocks):
        if blk['cleanup']:
            continue
        for si, s in enumerate(blk['s']):
            if s['k'] == 'assign' and s['rv']['r'] == 'bin' and s['rv']['op'] in ('Add', 'AddWithOverflow'):
                adds.append((bi, q.base_local(su, s['rv']['a']), s, render(strip(sym.rvalue(s['rv'])))))
    # alignment advances: X = X + read_until(..)
    adv = [a for a in adds if 'read_until' in a[3]]
    if len(adv) < 2:
        raise Inconclusive('CsvSource::setup: expected two alignment advances (start, end), found %d' % len(adv))
    adv_locals = {a[1] for a in adv}
    # the variable whose value is used to derive the other one: `end = start + range_size`
    derive = [a for a in adds if 'read_until' not in a[3] and a[1] in adv_locals and 'Div(' in a[3]]
    ctx.inst('CsvSource::setup|end-from-unaligned-start', {'end computation': [(a[2]['at'], a[3][:120]) for a in derive][:2],
                                                           'alignment advances': [a[2]['at'] for a in adv]})
    if not derive:
        raise Inconclusive('CsvSource::setup: cannot identify `end = start + range_size`')
    for a in derive:
        for b in adv:
            if b[1] == a[1] and a[0] in su.reachable_from(b[0]):
                ctx.viol('%s|end-from-aligned-start' % su.path, a[2]['at'],
                         'CsvSource::setup computes `end` from `start` after `start` was advanced by the alignment: replica k\'s end '
                         'would no longer coincide with replica k+1\'s start and a record would be read twice or skipped', None)
    # ---- FileSource
    nx = facts.method(FILE, 'next', trait=OP)
    rl = [(bi, t) for bi, t in nx.calls() if (t['callee'].get('path') or '').endswith('BufRead::read_line')]
    if not rl:
        raise AnchorMissing('FileSource::next does not call read_line')
    dnf = q.cond_of_block(facts, nx, rl[0][0])
    ctx.inst('FileSource::next|continue-guard', {'conditions': show_dnf(dnf)})
    ok = False
    for c in dnf:
        for a in c:
            if a[0] == 'cmp' and 'self.current' in (a[1], a[2]) and 'self.end' in (a[1], a[2]):
                rel = a[3] if a[1] == 'self.current' else frozenset(FLIP[r] for r in a[3])
                if rel == frozenset(['<', '=']):
                    ok = True
    fsu = facts.method(FILE, 'setup', trait=OP)
    fru = [(bi, t) for bi, t in fsu.calls() if (t['callee'].get('path') or '').endswith('BufRead::read_until')]
    disc = [q.cond_of_block(facts, fsu, bi) for bi, t in fru]
    ctx.inst('FileSource::setup|discard-first-line', {'conditions': [show_dnf(d) for d in disc]})
    import re as _re

    def bare_gid(a):
        # the test must be on the replica index itself (`global_id != 0`), not on a quantity derived from it
        # (`start != 0` is equivalent only while file_size >= #replicas)
        sides = [a[1], a[2]]
        return a[0] == 'cmp' and any(_re.match(r'^\*?(metadata|arg\d+)\.global_id$|^\*?global_id$', x) for x in sides) and any(_re.match(r'^0_\w+$', x) for x in sides) \
            and a[3] == frozenset(['<', '>'])
    uncond = bool(fru) and all(all(all(bare_gid(a) for a in c) and c for c in d) for d in disc)
    if not ok or not uncond:
        ctx.viol('%s|boundary-pair' % nx.path, rl[0][1]['at'],
                 'FileSource must pair the inclusive continue test `current <= end` with an unconditional discard of the first '
                 '(partial) line on every replica but the first; found continue=%s, discard conditions=%s: a line starting exactly at '
                 'a boundary would be lost or read twice' % (show_dnf(dnf), [show_dnf(d) for d in disc]), None)


@rule('C15', 'R5', 'file/CSV split: the share of a replica is a truncating division, so the last replica reads up to the end of the file')
def c15_r5(ctx):
    """`range_size = size / replicas` rounds down; `replicas * range_size` can be up to `replicas - 1` bytes short of the file. The
    bytes of that remainder belong to no replica unless the value stored as the end of some replica's range is the size the
    division started from (on the replica tested to be the last one). Checked on the data flow of `setup`, not on names."""
    facts = ctx.facts
    n = 0
    for adt in (FILE, CSV):
        su = facts.method(adt, 'setup', trait=OP)
        sym = q.sym(facts, su)
        name = adt.split('::')[-1]
        divs = []
        for bi, blk in enumerate(su.blocks):
            if blk['cleanup']:
                continue
            for st in blk['s']:
                if st['k'] == 'assign' and st['rv']['r'] == 'bin' and st['rv']['op'] == 'Div':
                    b_ = render(strip(sym.operand(st['rv']['b'])))
                    if 'replicas' in b_ or 'len(' in b_:
                        divs.append((bi, st, sym.operand(st['rv']['a']), b_))
        if not divs:
            raise AnchorMissing('%s::setup: no division of the input size by the number of replicas' % name)
        bi, st, total, per = divs[0]
        total_s = render(strip(total))
        # the total may itself be `file_size - header_size` (CSV): the end of the last replica is then the file size
        totals = [total]
        t_ = strip(total)
        if t_[0] == 'field' and strip(t_[1])[0] == 'bin':
            t_ = strip(t_[1])
        if t_[0] == 'bin' and t_[1] in ('Sub', 'SubWithOverflow'):
            totals.append(t_[2])
        # where does `<start> + <share>` go? a field of self, or a local that has other definitions too (`let mut end = if last {..}`)
        div_local = st['lhs'][0] if is_local(st['lhs']) else None
        ends = []
        for b2, blk2 in enumerate(su.blocks):
            if blk2['cleanup']:
                continue
            for st2 in blk2['s']:
                if st2['k'] != 'assign' or st2['rv']['r'] != 'bin' or st2['rv']['op'] not in ('Add', 'AddWithOverflow'):
                    continue
                r2 = render(strip(sym.rvalue(st2['rv'])))
                opnds = [render(strip(sym.operand(st2['rv'][k_]))) for k_ in ('a', 'b')]
                # `<something> + <share>`: one addend is the quotient itself (not a multiple of it: that is the start offset)
                if not any(o.startswith('Div(') for o in opnds) or 'read_until' in r2:
                    continue
                # follow the sum through copies to the place that finally holds it
                loc = st2['lhs'][0]
                hops = 0
                holder = None
                while hops < 6 and holder is None:
                    hops += 1
                    nxt = None
                    for b3, blk3 in enumerate(su.blocks):
                        for st3 in blk3['s']:
                            if st3['k'] == 'assign' and st3['rv']['r'] in ('use', 'cast') and st3['rv']['o'][0] != 'k' and st3['rv']['o'][1][0] == loc:
                                if is_local(st3['lhs']):
                                    if len(su.defs().get(st3['lhs'][0], [])) > 1:
                                        holder = ('local', st3['lhs'][0], st3)
                                    else:
                                        nxt = st3['lhs'][0]
                                else:
                                    holder = ('place', st3['lhs'], st3)
                    if holder is None:
                        if nxt is None:
                            break
                        loc = nxt
                if holder and holder[0] == 'local':
                    alts_ = []
                    for (db, ds) in su.defs().get(holder[1], []):
                        node = su.def_node((db, ds))
                        if ds != 'T' and not ('read_until' in render(strip(sym.rvalue(node['rv'])))):
                            alts_.extend(q.alternatives(facts, su, sym.rvalue(node['rv']), depth=1, as_terms=True))
                    ends.append((b2, holder[2], alts_))
                elif holder:
                    alts_ = []
                    for b3, blk3 in enumerate(su.blocks):
                        for st3 in blk3['s']:
                            if st3['k'] == 'assign' and st3['lhs'] == holder[1]:
                                alts_.extend(q.alternatives(facts, su, sym.rvalue(st3['rv']), as_terms=True))
                    ends.append((b2, holder[2], alts_))
        if not ends:
            raise AnchorMissing('%s::setup: cannot find where `start + share` (the end of the replica\'s range) is kept' % name)
        n += 1
        alts_t = [a for _, _, al in ends for a in al if isinstance(a, tuple)]
        alts = [render(strip(a)) for a in alts_t]
        ctx.inst('%s::setup|end of the range' % name, {'size divided': total_s[:80], 'divisor': per[:60], 'values the end can take': [a[:80] for a in alts]})

        def same_size(a):
            a = strip(a)
            while a and a[0] == 'cast':
                a = strip(a[-1]) if isinstance(a[-1], tuple) else a
                break
            return any(q.term_match(a, t) for t in totals)
        covers = [a for a in alts_t if same_size(a)]
        if not covers:
            ctx.viol('%s|remainder-unread' % su.path, ends[0][1]['at'],
                     '%s::setup gives every replica the end `%s`: the division `%s / %s` rounds down, so up to replicas-1 bytes at the end of '
                     'the input belong to no replica (the last replica must read up to the input size)' % (name, alts[0][:60], total_s[:40], per[:40]), None)
    if n == 0:
        raise AnchorMissing('no file-like source analysed')


@rule('C15', 'R4', 'integer range sources clamp the range length at zero (an empty or reversed range yields nothing)')
def c15_r4(ctx):
    facts = ctx.facts
    gens = [f for f in facts.lib_fns() if f.name == 'generate_iterator' and (f.impl_self or '').startswith('std::ops::Range<')]
    if len(gens) < 5:
        raise AnchorMissing('fewer than 5 Range<_> impls of IntoParallelSource::generate_iterator')
    for f in sorted(gens, key=lambda x: x.path):
        sym = q.sym(facts, f)
        raw, clamped = [], []

        def visit(x, parent):
            if x[0] == 'bin' and x[1] in ('Sub', 'SubWithOverflow', 'SubUnchecked'):
                a, b = render(strip(x[2])), render(strip(x[3]))
                if a == 'self.end' and b == 'self.start':
                    # find the nearest enclosing call
                    raw.append(x)
            if x[0] == 'call' and x[1].endswith('saturating_sub') and len(x[2]) == 2 and render(strip(x[2][0])) == 'self.end' and render(strip(x[2][1])) == 'self.start':
                clamped.append(x)
            if x[0] == 'call' and x[1] == 'std::cmp::Ord::max' and len(x[2]) == 2:
                a, b = strip(x[2][0]), strip(x[2][1])
                for u, v in ((a, b), (b, a)):
                    if v[0] == 'const' and v[1].startswith('0_') and 'self.end' in render(u) and 'self.start' in render(u):
                        clamped.append(x)
        lens = []
        for bi, t in f.calls():
            for a in t['args']:
                walk(sym.operand(a), visit)
        for bi, blk in enumerate(f.blocks):
            for s in blk['s']:
                if s['k'] == 'assign' and s['rv']['r'] == 'bin' and s['rv']['op'] == 'Div':
                    d = sym.rvalue(s['rv'])
                    txt = render(strip(d))
                    lens.append(txt)
        has_clamp = bool(clamped)
        # every Div numerator that mentions end-start must contain a clamp
        unclamped = [l for l in lens if 'self.end' in l and 'self.start' in l and 'saturating_sub(self.end, self.start)' not in l
                     and not ('Ord::max(SubWithOverflow(self.end, self.start).0, 0_' in l or 'Ord::max(Sub(self.end, self.start), 0_' in l)]
        # an explicit guard comparing start and end that dominates the arithmetic also counts
        guard = any(blk['t']['t'] == 'switch' and 'self.start' in render(sym.operand(blk['t']['discr'])) and 'self.end' in render(sym.operand(blk['t']['discr']))
                    for blk in f.blocks if not blk['cleanup'])
        ctx.inst(f.impl_self, {'function': f.path, 'chunk-size expressions': [l[:140] for l in lens][:2], 'clamped': has_clamp, 'guarded': guard})
        if unclamped and not guard:
            ctx.viol('%s|unclamped-length' % f.path, f.at,
                     '%s::generate_iterator divides the unclamped length `end - start` among the replicas: for a reversed range the '
                     'subtraction overflows (unsigned) or the negative chunk size makes some replica yield elements (signed); an '
                     'empty or reversed range must yield nothing' % f.impl_self, {'expression': unclamped[0][:300]})


@rule('C18', 'R5', 'ChannelSource idle table: spin while retry < MAX, emit FlushBatch exactly at MAX, block only after that')
def c18_r5(ctx):
    facts = ctx.facts
    nx = facts.method('renoir::operator::source::channel::ChannelSource', 'next', trait=OP)
    fb = [(bi, s) for bi, s in q.aggregates(nx, SE, 'FlushBatch') if s['lhs'] == [0]]
    blocking = [(bi, t) for bi, t in nx.calls() if (t['callee'].get('path') or '').endswith('::recv')
                and 'try' not in (t['callee'].get('path') or '')]
    if not fb or not blocking:
        raise AnchorMissing('ChannelSource::next must have a FlushBatch return and a blocking recv')

    def retry_rel(c):
        for a in c:
            if a[0] == 'cmp' and 'retry_count' in (a[1] + a[2]) and 'MAX_RETRY' in (a[1] + a[2]) or \
                    (a[0] == 'cmp' and 'retry_count' in (a[1] + a[2]) and any(ch.isdigit() for ch in a[1] + a[2])):
                first = 'retry_count' in a[1]
                yield a[3] if first else frozenset(FLIP[r] for r in a[3])
    # all comparisons of retry_count use one threshold (MAX_RETRY)
    consts = set()
    sym = q.sym(facts, nx)
    for blk in nx.blocks:
        if blk['cleanup']:
            continue
        for s_ in blk['s']:
            if s_['k'] == 'assign' and s_['rv']['r'] == 'bin' and s_['rv']['op'] in ('Lt', 'Le', 'Gt', 'Ge', 'Eq', 'Ne'):
                a_, b_ = render(strip(sym.operand(s_['rv']['a']))), render(strip(sym.operand(s_['rv']['b'])))
                if 'retry_count' in a_:
                    consts.add(b_)
                elif 'retry_count' in b_:
                    consts.add(a_)
    ctx.inst('ChannelSource::next|thresholds', {'retry_count compared with': sorted(consts)})
    if len(consts) != 1:
        ctx.viol('%s|thresholds' % nx.path, nx.at,
                 'ChannelSource compares retry_count with different thresholds %s: the spin / flush / block arms no longer '
                 'partition the counter range, so the blocking recv can be reached without a FlushBatch' % sorted(consts), None)
    for bi, s in fb:
        dnf = q.cond_of_block(facts, nx, bi)
        rels = [set.intersection(*[set(r) for r in retry_rel(c)]) if list(retry_rel(c)) else None for c in dnf]
        ctx.inst('ChannelSource::next|FlushBatch', {'at': s['at'], 'retry_count vs MAX_RETRY': [sorted(r) if r else None for r in rels]})
        if not rels or any(r != {'='} for r in rels):
            ctx.viol('%s|flushbatch-guard' % nx.path, s['at'],
                     'ChannelSource emits FlushBatch under retry_count %s MAX_RETRY (must be exactly ==)' % [sorted(r) if r else None for r in rels], None)
    for bi, t in blocking:
        dnf = q.cond_of_block(facts, nx, bi)
        rels = [set.intersection(*[set(r) for r in retry_rel(c)]) if list(retry_rel(c)) else None for c in dnf]
        ctx.inst('ChannelSource::next|blocking recv', {'at': t['at'], 'retry_count vs MAX_RETRY': [sorted(r) if r else None for r in rels]})
        if not rels or any(r is None or not r <= {'>'} for r in rels):
            ctx.viol('%s|blocks-before-flush' % nx.path, t['at'],
                     'ChannelSource can block on recv() while retry_count <= MAX_RETRY, i.e. before it has emitted FlushBatch: an '
                     'element handed to the source would sit in a partial batch forever', None)


@rule('C18', 'R6', 'ChannelSource state machine: between a returned Item and the blocking recv() a FlushBatch is always emitted')
def c18_r6(ctx):
    from ..opsum import automaton
    from ..absint import Bound
    facts = ctx.facts
    nx = facts.method('renoir::operator::source::channel::ChannelSource', 'next', trait=OP)
    try:
        a = automaton(facts, nx)
    except Bound as e:
        raise Inconclusive(str(e))
    g = a.g
    blocking = {bi for bi, t in nx.calls() if (t['callee'].get('path') or '').endswith('::recv') and 'try' not in (t['callee'].get('path') or '')}
    if not blocking:
        raise AnchorMissing('ChannelSource::next has no blocking recv')

    def ret_is(n, v):
        return g.is_return(n) and a.ret_set(n) == frozenset([v])
    starts = [m for (n, m) in g.activation_edges if ret_is(n, 'Item')]
    reach = g.reachable(starts, avoid=lambda n: ret_is(n, 'FlushBatch') or ret_is(n, 'FlushAndRestart'))
    bad = [n for n in reach if g.block(n) in blocking]
    ctx.inst('ChannelSource automaton', {'nodes': len(g.nodes), 'activations after an Item': len(starts), 'blocking-recv nodes reached without FlushBatch': len(bad),
                                         'retry_count values seen': sorted({v[1] for n in range(len(g.nodes)) for k, v in g.nodes[n][1] if 'retry_count' in k and v[0] == 'c'})})
    if not starts:
        raise Inconclusive('ChannelSource automaton has no `return Item`')
    if bad:
        p = g.path_to(bad[0], starts, avoid=lambda n: ret_is(n, 'FlushBatch') or ret_is(n, 'FlushAndRestart'))
        ctx.viol('%s|blocks-without-flush' % nx.path, nx.blocks[g.block(bad[0])]['t']['at'],
                 'after handing out an element the channel source can block in recv() without having emitted FlushBatch: the element stays '
                 'in a partial batch of the source block for as long as no further input arrives', {'path': g.describe_path(p) if p else None})
