"""Order / time rules: C16.R1, C16.R3, C06.R3, C06.R4, C13.R1, C13.R2 (E3 mutator audit + E4 order-domain tables)."""
import re

from ..core import rule, Inconclusive
from ..facts import AnchorMissing, SE, is_local
from ..symex import render, strip, Sym
from ..pathcond import show_dnf, PathEnum, REL, ALL, FLIP
from .. import q
from .protocol import standard_operators, short, _exact

OP = 'renoir::operator::Operator'
REORDER = 'renoir::operator::reorder::Reorder'
ET = 'renoir::operator::window::descr::event_time::EventTimeWindowManager'

FIFO_OK = {'push_back', 'push', 'pop_front', 'extend', 'clear', 'drain', 'append', 'into_iter', 'extend_from_slice',
           'partition_point', 'retain', 'truncate', 'resize', 'shrink_to_fit'}
LIFO = {'pop', 'pop_back', 'push_front', 'insert', 'remove', 'swap_remove', 'reverse', 'sort', 'sort_by', 'sort_by_key',
        'sort_unstable', 'sort_unstable_by', 'sort_unstable_by_key', 'swap', 'rotate_left', 'rotate_right', 'split_off'}
SKIP = {'len', 'is_empty', 'iter', 'new', 'with_capacity', 'capacity', 'iter_mut', 'as_slice', 'front', 'back', 'first', 'last',
        'get', 'reserve', 'make_contiguous', 'as_mut_slice', 'contains', 'get_mut', 'front_mut', 'back_mut', 'as_mut', 'as_ref'}
R1_EXC = {
    ('renoir::operator::keyed_fold::KeyedFold', 'ready', 'pop'): 'one result per key per iteration: the order among different keys is not observable (C07)',
    ('renoir::operator::join::local_sort_merge::JoinLocalSortMerge', 'left', 'pop'): 'consumes a sorted run from its end by design (sort-merge join)',
    ('renoir::operator::join::local_sort_merge::JoinLocalSortMerge', 'right', 'pop'): 'consumes a sorted run from its end by design (sort-merge join)',
    ('renoir::operator::join::local_sort_merge::JoinLocalSortMerge', 'left', 'sort_unstable_by'): 'sort-merge join sorts each side by key once the input ended',
    ('renoir::operator::join::local_sort_merge::JoinLocalSortMerge', 'right', 'sort_unstable_by'): 'sort-merge join sorts each side by key once the input ended',
}
QUEUE_TRAITS = (OP, 'renoir::operator::start::StartReceiver', 'renoir::operator::window::WindowManager')


@rule('C16', 'R1', 'FIFO discipline: element queues of operators, receivers, window managers and the batcher only use order-preserving mutators')
def c16_r1(ctx):
    facts = ctx.facts
    adts = set()
    for tr in QUEUE_TRAITS:
        adts |= {i.get('self_adt') for i in facts.impls_of(tr)}
    adts.add('renoir::block::batcher::Batcher')
    adts.discard(None)
    if len(adts) < 40:
        raise AnchorMissing('fewer than 40 operator/receiver/manager types found (%d)' % len(adts))
    fields = {}
    for a in adts:
        ad = facts.adts.get(a)
        if not ad:
            continue
        for fl in ad['variants'][0]['fields']:
            if fl['ty'].startswith(('std::vec::Vec<', 'std::collections::VecDeque<')):
                # queues of stream data only: not the tables of senders / routes / block ids
                if any(x in fl['ty'] for x in ('Batcher<', 'NetworkSender<', 'FilterFn', 'BlockSenders', 'Coord>', 'usize>', 'Endpoint<')):
                    continue
                fields[(a, fl['name'])] = set()
    for f in facts.lib_fns():
        if f.impl_adt not in adts:
            continue
        sym = None
        for bi, t in f.calls():
            p = t['callee'].get('path') or ''
            if not (p.startswith('std::collections::VecDeque::') or p.startswith('std::vec::Vec::') or p.startswith('core::slice::')):
                continue
            m = p.rsplit('::', 1)[1]
            if m in SKIP or not t['args']:
                continue
            sym = sym or q.sym(facts, f)
            recv = render(strip(sym.operand(t['args'][0])))
            if not recv.startswith('self.'):
                continue
            name = recv[5:].split('.')[0].split('[')[0].split('(')[0]
            if (f.impl_adt, name) not in fields:
                continue
            fields[(f.impl_adt, name)].add(m)
            if m in LIFO:
                exc = R1_EXC.get((f.impl_adt, name, m))
                if exc:
                    ctx.exception('%s.%s.%s' % (f.impl_adt, name, m), exc)
                else:
                    ctx.viol('%s|lifo|%s|%s' % (f.impl_adt, name, m), t['at'],
                             '%s applies `%s` to its element queue `%s`: elements would leave in a different order than they '
                             'arrived (invisible to tests that sort their output)' % (f.path, m, name), None)
            elif m not in FIFO_OK:
                ctx.note('unclassified mutator %s on %s.%s' % (m, f.impl_adt, name))
    for (a, n), ms in sorted(fields.items()):
        ctx.inst('%s.%s' % (a.split('::')[-1], n), {'type': a, 'field': n, 'mutators': sorted(ms)}, nontrivial=bool(ms))


def cmp_rel_of(sym_cmp, first_pred):
    """relation set (between the operand satisfying first_pred and the other) for which a comparison
    expression ('bin', op, a, b) is true"""
    op, a, b = sym_cmp[1], render(strip(sym_cmp[2])), render(strip(sym_cmp[3]))
    rel = set(REL[op])
    if first_pred(a):
        return frozenset(rel), a, b
    if first_pred(b):
        return frozenset(FLIP[r] for r in rel), b, a
    return None, a, b


@rule('C16', 'R3', 'reorder(): comparator orders by timestamp ascending; buffer sorted before any release; end of iteration drains it')
def c16_r3(ctx):
    facts = ctx.facts
    cmps = [f for f in facts.impl_methods('std::cmp::Ord', 'cmp') if f.impl_adt == 'renoir::operator::reorder::TimestampedItem']
    if not cmps:
        raise AnchorMissing('impl Ord for reorder::TimestampedItem not found')
    f = cmps[0]
    sym = q.sym(facts, f)
    calls = [t for _, t in f.calls() if (t['callee'].get('path') or '') == 'std::cmp::Ord::cmp']
    ctx.inst('TimestampedItem::cmp', {'calls': [(render(strip(sym.operand(t['args'][0]))), render(strip(sym.operand(t['args'][1])))) for t in calls]})
    ok = False
    for t in calls:
        a, b = render(strip(sym.operand(t['args'][0]))), render(strip(sym.operand(t['args'][1])))
        if a == 'self.timestamp' and b.endswith('.timestamp') and not b.startswith('self'):
            ok = True
    # the result must be returned unchanged (no .reverse())
    rev = [t for _, t in f.calls() if 'reverse' in (t['callee'].get('path') or '')]
    if not ok or rev:
        ctx.viol('%s|comparator' % f.path, f.at,
                 'Ord for reorder::TimestampedItem no longer compares self.timestamp with other.timestamp in ascending order', None)
    nx = facts.method(REORDER, 'next', trait=OP)

    def is_real_sort(t):
        p_ = t['callee'].get('path') or ''
        return p_.startswith('glidesort::') or p_.startswith('core::slice::<impl [T]>::sort') or '::sort_unstable' in p_ or p_.endswith('::sort') or '::sort_by' in p_

    def sort_guard_ok(fn_, bi_):
        """the sort may only be skipped for buffers of fewer than two elements: its path condition must hold for every
        length >= 2 (atoms may only compare the buffer length with a literal)"""
        dnf_ = q.cond_of_block(facts, fn_, bi_)
        # conditions evaluated BEFORE the element is received (the loop head: "still buffering?") are not guards of the sort: when the
        # sort is dominated by the request for the next input, only the conditions between that request and the sort count
        ins_ = [b_ for b_, t_ in fn_.calls() if (t_['callee'].get('path') or '').endswith('Operator::next') and fn_.dominates(b_, bi_) and b_ != bi_]
        if ins_:
            try:
                from ..pathcond import simplify as _simp
                st_ = fn_.blocks[ins_[-1]]['t'].get('target')
                if st_ is not None:
                    d2_ = q.pe(facts, fn_).paths(lambda bb, st: bb == bi_, start=st_)
                    if d2_:
                        dnf_ = _simp([a for a, _ in d2_])
            except Exception:
                pass
        import re as _re
        for ln in (2, 3, 4, 7):
            sat = False
            for c in dnf_:
                ok_c = True
                for a in c:
                    if a[0] == 'is' and a[1] == '<input>':
                        continue
                    if a[0] == 'is' and a[2] in ('Watermark', 'FlushAndRestart'):
                        continue
                    if a[0] == 'bool' and ('received_end' in a[1] or 'is_none' in a[1]):
                        continue
                    if a[0] == 'cmp':
                        sides = [a[1], a[2]]
                        lit = [x for x in sides if _re.match(r'^\d+_usize$', x)]
                        le = [x for x in sides if 'len(' in x and 'buffer' in x]
                        if len(lit) == 1 and len(le) == 1:
                            n_ = int(lit[0].split('_')[0])
                            rel = a[3] if sides[0] == le[0] else frozenset(FLIP[r] for r in a[3])
                            cur = '<' if ln < n_ else ('=' if ln == n_ else '>')
                            if cur not in rel:
                                ok_c = False
                            continue
                    ok_c = False
                if ok_c:
                    sat = True
            if not sat:
                return False, q.show_dnf(dnf_)
        return True, q.show_dnf(dnf_)

    sorts = []          # (block in next, terminator, edges) of sorts that are effective for every buffer of >= 2 elements
    for bi, t in nx.calls():
        if is_real_sort(t):
            sorts.append((bi, t))
            continue
        # a helper of the same type that performs the sort
        callee = facts.fn(t['callee'].get('resolved') or t['callee'].get('path') or '', required=False)
        if callee is not None and callee.impl_adt == nx.impl_adt and callee.path != nx.path:
            inner = [(b2, t2) for b2, t2 in callee.calls() if is_real_sort(t2)]
            if inner:
                okg, shown = sort_guard_ok(callee, inner[0][0])
                ctx.inst('Reorder|sort helper %s' % callee.name, {'sort guard': shown, 'covers every buffer of >= 2 elements': okg})
                if okg:
                    sorts.append((bi, t))
                else:
                    ctx.viol('%s|sort-skipped' % callee.path, inner[0][1]['at'],
                             'the reorder buffer is sorted only under %s: some buffer of two or more elements is released unsorted' % shown, None)
    ctx.inst('Reorder::next|sort', {'sort calls': [t['at'] for _, t in sorts]})
    if not sorts:
        ctx.viol('%s|no-sort' % nx.path, nx.at, 'Reorder::next never sorts its buffer', None)
    # a sort on both the Watermark edge and the FlushAndRestart edge (release happens only after one of them)
    ins = set()
    for bi, t in sorts:
        for c in q.op_cond_of_block(facts, nx, bi):
            for a in c:
                if a[0] == 'is' and a[1] == '<input>':
                    ins.add(a[2])
        if is_real_sort(t):
            okg, shown = sort_guard_ok(nx, bi)
            if not okg:
                ctx.viol('%s|sort-skipped' % nx.path, t['at'],
                         'the reorder buffer is sorted only under %s: some buffer of two or more elements is released unsorted' % shown, None)
    if not {'Watermark', 'FlushAndRestart'} <= ins:
        ctx.viol('%s|sort-edges' % nx.path, nx.at,
                 'Reorder::next sorts only on %s: elements could be released unsorted on the other release trigger' % sorted(ins), None)


@rule('C06', 'R6', 'reorder(): the release guard looks at the buffer front, so the buffer must be sorted ascending at every watermark before the guard is evaluated')
def c06_r6(ctx):
    """C06.R4 proves `front.timestamp > w` when Watermark(w) is forwarded; that covers every buffered element only if the front is
    the minimum, i.e. the buffer was sorted (ascending comparator, no skipped sort) after the last push: same obligations as C16.R3"""
    c16_r3(ctx)


def release_guard(ctx, facts, nx, name):
    """Reorder: `return Watermark(w)` only when the front of the buffer is absent or has timestamp > w"""
    rets = q.returns_variant(nx, SE, 'Watermark')
    for bi, s in rets:
        dnf = q.op_cond_of_block(facts, nx, bi)
        ctx.inst('%s|return Watermark' % name, {'at': s['at'], 'conditions': show_dnf(dnf)})
        for c in dnf:
            if any(a[0] == 'is' and 'front' in a[1] and a[2] == 'None' for a in c):
                continue
            ok = False
            for a in c:
                if a[0] == 'cmp' and ('timestamp' in a[1] or 'timestamp' in a[2]):
                    ts_first = 'timestamp' in a[1]
                    rel = a[3] if ts_first else frozenset(FLIP[r] for r in a[3])
                    if rel == frozenset(['>']):
                        ok = True
            if not ok:
                ctx.viol('%s|watermark-overtakes' % nx.path, s['at'],
                         '%s::next can forward a watermark w while its buffer front has a timestamp that is not strictly greater '
                         'than w (conditions: %s): that element would later be emitted at or below an emitted watermark'
                         % (name, show_dnf([c])), None)


@rule('C06', 'R4', 'release comparisons: buffered timestamped data with stamp <= w is released before Watermark(w) is forwarded')
def c06_r4(ctx):
    facts = ctx.facts
    nx = facts.method(REORDER, 'next', trait=OP)
    release_guard(ctx, facts, nx, 'Reorder')
    event_time_release(ctx)


@rule('C13', 'R2', 'event-time windows fire exactly when a watermark reaches their end (released iff end <= w); iteration end releases all')
def c13_r2(ctx):
    event_time_release(ctx)
    facts = ctx.facts
    pr = facts.method(ET, 'process', trait='renoir::operator::window::WindowManager')
    # FlushAndRestart | Terminate: full-range drain
    sym = q.sym(facts, pr)
    found = False
    for bi, t in q.calls_suffix(pr, '::drain'):
        full = any('RangeFull' in g for g in t['callee'].get('gargs', []))
        dnf = q.cond_of_block(facts, pr, bi)
        vs = set()
        for c in dnf:
            for a in c:
                if a[0] == 'is':
                    vs.add(a[2])
                if a[0] == 'isin':
                    vs |= set(a[2])
        ctx.inst('EventTime::process|drain|%s' % ('full' if full else 'split'), {'at': t['at'], 'edges': sorted(vs)})
        if full and {'FlushAndRestart', 'Terminate'} <= vs:
            found = True
    if not found:
        ctx.viol('%s|no-final-drain' % pr.path, pr.at, 'EventTimeWindowManager::process does not drain all windows on FlushAndRestart / Terminate', None)
    # only active slots produce output, and every drained slot is looked at
    if release_chains(ctx, facts, pr, 'EventTime::process') < 2:
        raise AnchorMissing('EventTimeWindowManager::process: fewer than two drain(..)->result chains found')


ELEMENTWISE = {'filter', 'map', 'filter_map', 'flat_map', 'inspect', 'collect', 'for_each', 'chain', 'into_iter', 'by_ref', 'fold',
               'extend', 'count', 'peekable', 'cloned', 'copied', 'flatten', 'enumerate'}
TRUNCATING = {'take_while', 'skip_while', 'take', 'skip', 'step_by', 'nth', 'next', 'last', 'find', 'find_map', 'position', 'rev',
              'map_while', 'min', 'max', 'min_by_key', 'max_by_key', 'min_by', 'max_by', 'next_back', 'nth_back', 'any', 'all',
              'scan', 'zip', 'reduce'}


def release_chains(ctx, facts, pr, name):
    """every window slot removed from the manager with `drain` reaches the result through element-wise iterator adapters only
    (filter on `active`, map to a result): an adapter that stops early, skips or picks drops the remaining drained windows,
    because `Drain` removes the whole range when it is dropped. Only slots marked `active` (at least one element) may become a
    result: the guard is either a `filter` stage on `.active` before the stage that builds the WindowResult, or a test of
    `.active` inside that stage. Returns the number of maximal chains examined."""
    sym = q.sym(facts, pr)
    chains = []
    for bi, t in pr.calls():
        p = t['callee'].get('path') or ''
        if not p.startswith('std::iter::Iterator::') or not t['args']:
            continue

        def clo_of(args):
            for x in args[1:]:
                x = strip(x)
                if x and x[0] == 'agg' and x[1][0] == 'closure':
                    return x[1][1]
            return None
        stages = [(p.rsplit('::', 1)[1], clo_of([None] + [sym.operand(a_) for a_ in t['args'][1:]]))]
        term = strip(sym.operand(t['args'][0]))
        root = None
        while term and term[0] == 'call':
            if term[1].endswith('::drain'):
                root = term
                break
            if not term[1].startswith('std::iter::Iterator::') or not term[2]:
                break
            stages.append((term[1].rsplit('::', 1)[1], clo_of(term[2])))
            term = strip(term[2][0])
        if root is None or 'self' not in render(strip(root[2][0])):
            continue
        stages.reverse()
        chains.append((t, root, stages))
    # keep maximal chains only (a chain that is a proper prefix of another one is the same pipeline seen earlier)
    maximal = [c for c in chains if not any(o is not c and o[1] == c[1] and len(o[2]) > len(c[2]) and o[2][:len(c[2])] == c[2] for o in chains)]
    for t, root, stages in maximal:
        names = [x for x, _ in stages]
        drained = render(strip(root[2][0]))
        ctx.inst('%s|release chain|%s' % (name, '.'.join(names)), {'at': t['at'], 'drained': drained, 'adapters': names})
        bad = [x for x in names if x in TRUNCATING]
        unk = [x for x in names if x not in TRUNCATING and x not in ELEMENTWISE]
        if bad:
            ctx.viol('%s|release-chain|%s' % (pr.path, bad[0]), t['at'],
                     'windows drained from %s pass through `%s` before they become results: the drained slots it stops at / skips are '
                     'removed from the manager without producing their result (lost window)' % (drained, bad[0]), None)
        if unk:
            ctx.note('%s: release chain uses adapters not classified by the rule: %s' % (name, unk))
        # the `active` guard
        guarded = False
        builds = False
        for nm, cd in stages:
            g = facts.fn(cd, required=False) if cd else None
            if g is None:
                continue
            s2 = q.sym(facts, g)
            if nm == 'filter' and g.locals[0]['ty'] == 'bool':
                for blk in g.blocks:
                    for st in blk['s']:
                        if st['k'] == 'assign' and st['lhs'] == [0] and render(strip(s2.rvalue(st['rv']))).endswith('.active'):
                            guarded = True
            aggs = q.aggregates(g, 'renoir::operator::window::WindowResult')
            if aggs:
                builds = True
                for b2, st in aggs:
                    dnf = q.cond_of_block(facts, g, b2)
                    own = q.cond_has(dnf, lambda a_: a_[0] == 'bool' and a_[1].endswith('.active') and a_[2] is True)
                    if not (guarded or own):
                        ctx.viol('%s|inactive-results' % pr.path, st['at'],
                                 'a window drained from %s becomes a result without a test of its `active` flag: slots that never '
                                 'received an element would produce (empty) results' % drained, None)
                break
        if not builds:
            ctx.note('%s: the chain %s does not build WindowResult in a closure the rule can see' % (name, names))
    # the same pipeline written as a loop: `for w in self.ws.drain(..k) { if w.active { results.push(..) } }`.  Every drained slot is
    # looked at iff the loop is left only when the drain iterator is exhausted (no break / return in the body); results only under
    # a test of `.active`.
    loops = 0
    for bi, t in pr.calls():
        if (t['callee'].get('path') or '') != 'std::iter::Iterator::next' or not t['args']:
            continue
        recv = render(strip(sym.operand(t['args'][0])))
        if '::drain(' not in recv or 'self' not in recv or '.ws' not in recv:
            continue
        if any(('Iterator::%s(' % x) in recv for x in TRUNCATING):
            ctx.viol('%s|release-chain|loop' % pr.path, t['at'], 'the loop over the drained windows iterates a truncated view (`%s`)' % recv[:100], None)
        loops += 1
        nxt = t.get('target')
        sw = pr.blocks[nxt]['t'] if nxt is not None else None
        body_entry = None
        if sw and sw['t'] == 'switch':
            for v, tb in sw['targets']:
                if v == '1':
                    body_entry = tb
            if body_entry is None and len(sw['targets']) == 1:
                body_entry = sw['otherwise']
        if body_entry is None:
            ctx.note('%s: loop over drained windows at %s not understood' % (name, t['at']))
            continue
        body = {b for b in pr.reachable_from(body_entry) if bi in pr.reachable_from(b)}
        can_ret = set()
        for rb in pr.return_blocks():
            can_ret.add(rb)
        exits = []
        for b in body:
            if b == nxt or b == bi:
                continue     # leaving through the None arm of the iterator is the regular end of the loop
            for s_ in pr.succ(b):
                if s_ not in body and s_ != bi and s_ != nxt and any(r_ in pr.reachable_from(s_) or r_ == s_ for r_ in pr.return_blocks()):
                    exits.append((b, s_))
        ctx.inst('%s|release loop|%s' % (name, t['at']), {'drained': recv[:100], 'body blocks': len(body), 'early exits': len(exits)})
        if exits:
            ctx.viol('%s|release-chain|loop-exit' % pr.path, t['at'],
                     'the loop over the windows drained from the manager can be left before the drain iterator is exhausted: the remaining drained '
                     'slots are removed without producing their result (lost window)', None)
        for b2, st in q.aggregates(pr, 'renoir::operator::window::WindowResult'):
            if b2 in body:
                dnf = q.cond_of_block(facts, pr, b2)
                if not q.cond_has(dnf, lambda a_: a_[0] == 'bool' and a_[1].endswith('.active') and a_[2] is True):
                    ctx.viol('%s|inactive-results' % pr.path, st['at'],
                             'a drained window becomes a result without a test of its `active` flag: slots that never received an element '
                             'would produce (empty) results', None)
    return len(maximal) + loops


def bool_closures(facts, fn, call_suffix):
    """(call terminator, closure Fn) for closures passed to calls whose path ends with call_suffix"""
    out = []
    for bi, t in fn.calls():
        p = t['callee'].get('path') or ''
        if not p.endswith(call_suffix):
            continue
        # the closure handed over as an argument (gclosures also lists closures buried in the receiver type)
        for a in t['args']:
            if a[0] == 'k' or not is_local(a[1]):
                continue
            cd = fn.locals[a[1][0]].get('closure')
            g = facts.fn(cd, required=False) if cd else None
            if g is not None:
                out.append((bi, t, g))
    return out


def closure_cmp(facts, g):
    """a closure whose body is `return <cmp>`: the ('bin', op, a, b) description of its result, else None"""
    sym = q.sym(facts, g)
    for blk in g.blocks:
        for s in blk['s']:
            if s['k'] == 'assign' and s['lhs'] == [0]:
                d = strip(sym.rvalue(s['rv']))
                neg = False
                while d[0] == 'un' and d[1] == 'Not':
                    d = strip(d[2])
                    neg = not neg
                if d[0] == 'bin' and d[1] in REL:
                    return d, neg
                # comparisons of non-primitive ordered types (Instant, Duration) are calls of the PartialOrd methods
                if d[0] == 'call' and len(d[2]) == 2:
                    m = {'std::cmp::PartialOrd::lt': 'Lt', 'std::cmp::PartialOrd::le': 'Le', 'std::cmp::PartialOrd::gt': 'Gt',
                         'std::cmp::PartialOrd::ge': 'Ge', 'std::cmp::PartialEq::eq': 'Eq', 'std::cmp::PartialEq::ne': 'Ne'}.get(d[1])
                    if m:
                        return ('bin', m, d[2][0], d[2][1]), neg
        t = blk['t']
        if t['t'] == 'call' and t['dest'] == [0] and len(t['args']) == 2:
            m = {'std::cmp::PartialOrd::lt': 'Lt', 'std::cmp::PartialOrd::le': 'Le', 'std::cmp::PartialOrd::gt': 'Gt',
                 'std::cmp::PartialOrd::ge': 'Ge', 'std::cmp::PartialEq::eq': 'Eq', 'std::cmp::PartialEq::ne': 'Ne'}.get(t['callee'].get('path'))
            if m:
                return ('bin', m, sym.operand(t['args'][0]), sym.operand(t['args'][1])), False
    return None, False


def norm_term(x):
    return x.replace('*', '').replace('&', '').strip()


def event_time_release(ctx):
    facts = ctx.facts
    pr = facts.method(ET, 'process', trait='renoir::operator::window::WindowManager')
    pps = bool_closures(facts, pr, '::partition_point')
    if not pps:
        raise AnchorMissing('EventTimeWindowManager::process has no partition_point closure')
    released_terms = []
    for bi, t, g in pps:
        d, neg = closure_cmp(facts, g)
        if d is None:
            raise Inconclusive('partition_point closure of EventTimeWindowManager is not a single comparison')
        # the slot-side operand is the one that mentions the closure's slot parameter
        import re as _re
        rel, a, b = cmp_rel_of(d, lambda x: bool(_re.match(r'^[*&(]*arg\d', x)))      # rooted at the closure's own (slot) parameter
        if rel is None:
            rel, a, b = cmp_rel_of(d, lambda x: x.endswith('.end'))
        if rel is not None and neg:
            rel = frozenset(ALL - set(rel))
        if rel is not None:
            released_terms.append(norm_term(a))
        ctx.inst('EventTime::process|release', {'at': t['at'], 'released iff end %s watermark' % ('{%s}' % ''.join(sorted(rel)) if rel else '?'): True,
                                                'operands': [a, b]})
        if rel is None:
            ctx.viol('%s|release-guard' % ET, t['at'], 'the release predicate does not compare the window end with the watermark (%s vs %s)' % (a, b), None)
            continue
        if '>' in rel:
            ctx.viol('%s|early-release' % ET, t['at'],
                     'EventTimeWindowManager releases a window whose end is beyond the watermark (released iff end {%s} w): elements '
                     'that are not late could still arrive for it' % ''.join(sorted(rel)), None)
        if '=' not in rel or '<' not in rel:
            ctx.viol('%s|release-guard' % ET, t['at'],
                     'EventTimeWindowManager releases a window iff end {%s} watermark: a window whose end equals the watermark is '
                     'kept, and its result (stamped `end`) is emitted after Watermark(end) was forwarded' % ''.join(sorted(rel)), None)
    # results are stamped with the window end (built in a `map` closure or in the body of a loop)
    for g in [pr] + facts.closures_of(pr):
        s2 = q.sym(facts, g)
        for bi, s in q.aggregates(g, 'renoir::operator::window::WindowResult', 'Timestamped'):
            stamp = render(strip(s2.operand(s['rv']['o'][1])))
            ctx.inst('EventTime::process|stamp|%s' % s['at'], {'stamp': stamp})
            def slot_field(x):
                # `<a slot of self.ws>.f` whatever names the slot: the closure parameter of an adapter or the element of the drain loop
                x = norm_term(x)
                if re.fullmatch(r'\^?arg\d+\.\w+', x):
                    return x.rsplit('.', 1)[1]
                if 'self.ws' in x and ('drain(' in x or 'iter' in x) and re.search(r'as Some\)\.0\.(\w+)$', x):
                    return re.search(r'as Some\)\.0\.(\w+)$', x).group(1)
                return None
            same_field = slot_field(stamp) is not None and any(slot_field(stamp) == slot_field(r_) for r_ in released_terms)
            if released_terms and norm_term(stamp) not in released_terms and not same_field:
                ctx.viol('%s|stamp' % ET, s['at'],
                         'event-time window results are stamped with `%s` but a window is kept open until a watermark reaches `%s`: a '
                         'watermark between the two is forwarded while the window is open, and the result later carries a timestamp at or '
                         'below it' % (stamp, released_terms[0]), None)


@rule('C13', 'R1', 'event-time assignment interval is half-open [start, end): skip while end <= ts, take while start <= ts')
def c13_r1(ctx):
    facts = ctx.facts
    pr = facts.method(ET, 'process', trait='renoir::operator::window::WindowManager')
    sk = bool_closures(facts, pr, '::skip_while')
    tk = bool_closures(facts, pr, '::take_while')
    # whatever the form of the scan: a stage that cuts it by a COUNT (take(n), skip(n), step_by, nth ...) bounds the slots an element can
    # reach by something other than their interval - an element whose window is still open but lies further from the end of the queue
    # than the count is assigned to no window
    sym0 = q.sym(facts, pr)
    for bi, t in pr.calls():
        pth = t['callee'].get('path') or ''
        nm = pth.rsplit('::', 1)[-1]
        if pth.startswith('std::iter::Iterator::') and nm in ('take', 'skip', 'step_by', 'nth', 'last', 'nth_back', 'next_back', 'find', 'position', 'rposition'):
            recv = render(strip(sym0.operand(t['args'][0])))
            if '.ws' in recv and 'iter_mut' in recv:
                ctx.inst('EventTime::process|scan-cut|%s' % nm, {'at': t['at'], 'receiver': recv[:120]})
                ctx.viol('%s|scan-cut|%s' % (ET, nm), t['at'],
                         'the scan that assigns an element to its windows is cut by `%s(..)`: which slots it reaches then depends on their position in the '
                         'queue, not on their interval - an out-of-order element whose window is still open can be assigned to no window' % nm, None)
    if not sk or not tk:
        # filter form: assigned iff the closure holds; it must be exactly start <= ts && ts < end
        fl = bool_closures(facts, pr, '::filter')
        fl = [(bi, t, g) for bi, t, g in fl if '.ws' in render(strip(sym0.operand(t['args'][0]))) and 'iter_mut' in render(strip(sym0.operand(t['args'][0])))]
        if not fl:
            raise AnchorMissing('EventTimeWindowManager::process selects slots neither with skip_while / take_while nor with filter')
        for bi, t, g in fl:
            pg = q.pe(facts, g)
            tg = {}
            sg = q.sym(facts, g)
            for gb, blk in enumerate(g.blocks):
                for s_ in blk['s']:
                    if s_['k'] == 'assign' and s_['lhs'] == [0]:
                        tg[gb] = render(strip(sg.rvalue(s_['rv'])))
            res = pg.paths(lambda b, st: b in tg)
            ok_lo = ok_hi = True
            n = 0
            for c, tb in res:
                val = tg[tb]
                if val == 'false':
                    continue
                n += 1
                atoms = list(c)
                # the last comparison may be the returned value itself
                lo = [a for a in atoms if a[0] == 'cmp' and ('.start' in a[1] or '.start' in a[2])]
                hi = [a for a in atoms if a[0] == 'cmp' and ('.end' in a[1] or '.end' in a[2])]
                txt = val
                def rel_of(a, fld):
                    # relation of the slot field to ts
                    return a[3] if fld in a[1] else frozenset(FLIP[r] for r in a[3])
                lo_ok = any(rel_of(a, '.start') == frozenset(['<', '=']) for a in lo) or ('Le(' in txt and '.start' in txt.split(',')[0])
                hi_ok = any(rel_of(a, '.end') == frozenset(['>']) for a in hi) or ('Lt(' in txt and '.end' in txt.split(',')[-1]) or ('Gt(' in txt and '.end' in txt.split(',')[0])
                ok_lo = ok_lo and lo_ok
                ok_hi = ok_hi and hi_ok
            ctx.inst('EventTime::process|filter', {'at': t['at'], 'accepting paths': n, 'start <= ts on all': ok_lo, 'ts < end on all': ok_hi})
            if n == 0 or not ok_lo:
                ctx.viol('%s|interval-lower' % ET, t['at'], 'the slot filter does not require start <= ts on every accepting path (half-open interval [start, end))', None)
            if n == 0 or not ok_hi:
                ctx.viol('%s|interval-upper' % ET, t['at'], 'the slot filter does not require ts < end on every accepting path (half-open interval [start, end))', None)
        sk = tk = None
    if sk is None:
        return c13_r1_slots(ctx, facts)
    d, neg = closure_cmp(facts, sk[0][2])
    rel, a, b = cmp_rel_of(d, lambda x: x.endswith('.end')) if d else (None, '', '')
    if rel is not None and neg:
        rel = frozenset(ALL - set(rel))
    ctx.inst('EventTime::process|skip_while', {'skipped iff end {%s} ts' % (''.join(sorted(rel)) if rel else '?'): True, 'operands': [a, b]})
    if rel != frozenset(['<', '=']):
        ctx.viol('%s|interval-upper' % ET, sk[0][1]['at'],
                 'a slot is skipped iff end {%s} ts; the half-open interval [start, end) requires end <= ts: with a different '
                 'relation an element is counted in a window it does not belong to, or dropped from its own' % (''.join(sorted(rel)) if rel else '?'), None)
    d, neg = closure_cmp(facts, tk[0][2])
    rel, a, b = cmp_rel_of(d, lambda x: x.endswith('.start')) if d else (None, '', '')
    if rel is not None and neg:
        rel = frozenset(ALL - set(rel))
    ctx.inst('EventTime::process|take_while', {'taken iff start {%s} ts' % (''.join(sorted(rel)) if rel else '?'): True, 'operands': [a, b]})
    if rel != frozenset(['<', '=']):
        ctx.viol('%s|interval-lower' % ET, tk[0][1]['at'],
                 'a slot is taken iff start {%s} ts; the half-open interval [start, end) requires start <= ts' % (''.join(sorted(rel)) if rel else '?'), None)
    c13_r1_slots(ctx, facts)


def c13_r1_slots(ctx, facts):
    # slots are created with end = start + size, consecutive starts differ by slide
    aw = facts.method(ET, 'alloc_windows')
    sym = q.sym(facts, aw)
    news = q.calls_suffix(aw, 'event_time::Slot::<A>::new')
    for bi, t in news:
        st, en = render(strip(sym.operand(t['args'][1]))), render(strip(sym.operand(t['args'][2])))
        ctx.inst('alloc_windows|Slot::new', {'start': st, 'end': en})
        if 'self.size' not in en or 'Add' not in en:
            ctx.viol('%s|slot-end' % aw.path, t['at'], 'a window slot is created with end = `%s` (must be start + size)' % en, None)
    if not news:
        raise AnchorMissing('alloc_windows does not call Slot::new')
    # window starts stay on the slide grid: every product that rounds a distance down to a number of slides
    # (`x / slide * m`) must multiply by the same `slide` again
    for blk in aw.blocks:
        for s_ in blk['s']:
            if s_['k'] == 'assign' and s_['rv']['r'] == 'bin' and s_['rv']['op'] in ('Mul', 'MulWithOverflow'):
                d = sym.rvalue(s_['rv'])
                a_, b_ = strip(d[2]), strip(d[3])
                for x_, y_ in ((a_, b_), (b_, a_)):
                    if x_[0] == 'bin' and x_[1] == 'Div':
                        divisor, mult = render(strip(x_[3])), render(y_)
                        ctx.inst('alloc_windows|grid|%s' % s_['at'], {'rounded by': divisor, 'multiplied by': mult})
                        if divisor != mult:
                            ctx.viol('%s|off-grid' % aw.path, s_['at'],
                                     'alloc_windows skips empty windows by (distance / %s) * %s: the next window start leaves the slide grid, '
                                     'so elements of a key that was idle fall between windows and are assigned to no result' % (divisor, mult), None)
    starts = [render(strip(sym.rvalue(s['rv']))) for blk in aw.blocks for s in blk['s'] if s['k'] == 'assign' and 'slide' in render(strip(sym.rvalue(s['rv'])))]
    ctx.inst('alloc_windows|next_start', {'expressions mentioning slide': starts[:4]})
    if not any('self.slide' in x and ('.start' in x) for x in starts) and not any('slide' in render(strip(sym.operand(a))) for _, t in aw.calls() for a in t['args']):
        ctx.viol('%s|slide' % aw.path, aw.at, 'consecutive window starts no longer differ by `slide`', None)


@rule('C06', 'R3', 'results precede the watermark that released them (window operator, folds, flat_map family)')
def c06_r3(ctx):
    facts = ctx.facts
    std, sources, special = standard_operators(facts)
    byname = {f.impl_adt: (f, a) for f, a in std}
    # (a) on the automaton: after a Watermark input, a `return Watermark` is never followed by a data return
    #     before the next input (the data released by that watermark must come first)
    for adt, (f, a) in sorted(byname.items()):
        g = a.g
        starts = [m for (_, m) in a.input_edges.get('Watermark', [])]
        if not starts:
            continue
        after_wm = []
        reach = g.reachable(starts, avoid=lambda n: a.is_input_node(n) or _exact(a, n, 'Watermark'))
        for n in reach:
            if _exact(a, n, 'Watermark'):
                after_wm.extend(g.succ(n))
        r2 = g.reachable(after_wm, avoid=lambda n: a.is_input_node(n))
        bad = [n for n in r2 if g.is_return(n) and a.ret_set(n) is not None and (a.ret_set(n) & {'Item', 'Timestamped'})
               and not a.is_input_node(n)]
        data_first = [n for n in reach if g.is_return(n) and a.ret_set(n) and (a.ret_set(n) & {'Item', 'Timestamped'})]
        ctx.inst(short(f), {'operator': f.path, 'data returns before the watermark': len(data_first),
                            'data returns after it (before next input)': len(bad)}, nontrivial=bool(data_first or bad))
        if bad:
            # Fold family holds the watermark back until the end of the iteration: the data returned after
            # the held watermark would be a violation too, so no exception is needed
            p = g.path_to(bad[0], starts)
            ctx.viol('%s|data-after-watermark' % adt, f.at,
                     '%s::next can return a data element after it has forwarded the watermark it received, without asking for '
                     'new input in between: results released by a watermark must precede it' % short(f),
                     {'path': g.describe_path(p) if p else None})
