"""Sibling / mirror-symmetry rules for two-sided operators: C08.R3, C09.R3, C09.R4 (E3 sibling agreement)."""
import re

from ..core import rule, Inconclusive
from ..facts import AnchorMissing, SE, is_local
from ..symex import render, strip
from ..pathcond import show_dnf
from .. import q

BE = 'renoir::operator::start::binary::BinaryElement'
OP = 'renoir::operator::Operator'
JLH = 'renoir::operator::join::local_hash::JoinLocalHash'
JKO = 'renoir::operator::join::keyed_join::JoinKeyedOuter'
JKI = 'renoir::operator::join::keyed_join::JoinKeyedInner'
JSM = 'renoir::operator::join::local_sort_merge::JoinLocalSortMerge'

SWAPS = [('left', 'right'), ('Left', 'Right'), ('keyer1', 'keyer2'), ('v1', 'v2'), ('Out1', 'Out2'), ('V1', 'V2'), ('lhs', 'rhs'), ('OutL', 'OutR')]


def mirror_text(s):
    for a, b in SWAPS:
        s = re.sub(r'\b%s\b' % a, '\x00', s)
        s = re.sub(r'\b%s\b' % b, a, s)
        s = s.replace('\x00', b)
        # identifiers with the token as a component (left_outer, LeftEnd, left_ended ...)
        s = re.sub(r'%s(?=[_A-Z])' % a, '\x00', s)
        s = re.sub(r'%s(?=[_A-Z])' % b, a, s)
        s = s.replace('\x00', b)
    return s


def mirror_sym(x):
    """structural mirror: swap the two components of 2-tuples whose components are Options (the output pair)"""
    if not isinstance(x, tuple):
        return x
    if x and x[0] == 'agg' and x[1] == ('tuple',) and len(x[2]) == 2 and all(is_optionish(y) for y in x[2]):
        return ('agg', ('tuple',), (mirror_sym(x[2][1]), mirror_sym(x[2][0])))
    # (key, (a, b)) : the joined pair is the second component
    if x and x[0] == 'agg' and x[1] == ('tuple',) and len(x[2]) == 2:
        inner = strip(x[2][1])
        if inner[0] == 'agg' and inner[1] == ('tuple',) and len(inner[2]) == 2 and not all(is_optionish(y) for y in inner[2]):
            return ('agg', ('tuple',), (mirror_sym(x[2][0]), ('agg', ('tuple',), (mirror_sym(inner[2][1]), mirror_sym(inner[2][0])))))
    out = []
    for y in x:
        if isinstance(y, tuple):
            if y and isinstance(y[0], str):
                out.append(mirror_sym(y))
            else:
                out.append(tuple(mirror_sym(z) for z in y))
        else:
            out.append(y)
    return tuple(out)


def is_optionish(y):
    y = strip(y)
    return y[0] == 'agg' and y[1][0] == 'adt' and y[1][1] == 'std::option::Option'


def be_switches(facts, fn):
    """(block, {variant: target}) for switches on the discriminant of a BinaryElement value"""
    p = q.pe(facts, fn)
    out = []
    for bi, blk in enumerate(fn.blocks):
        if blk['cleanup']:
            continue
        t = blk['t']
        if t['t'] != 'switch' or t['discr'][0] == 'k' or not is_local(t['discr'][1]):
            continue
        d = fn.single_def(t['discr'][1][0])
        if d is None or d[1] == 'T':
            continue
        node = fn.def_node(d)
        if node['rv']['r'] != 'discr':
            continue
        pl = p.resolve_place(node['rv']['p'])
        if p.place_adt(pl) != BE:
            continue
        vs = facts.variants(BE)
        tg = {}
        for v, tb in t['targets']:
            try:
                tg[vs[int(v)]] = tb
            except (ValueError, IndexError):
                pass
        listed = set(tg)
        rest = [v for v in vs if v not in listed]
        if rest and fn.blocks[t['otherwise']]['t']['t'] != 'unreachable':
            for v in rest:
                tg[v] = t['otherwise']
        out.append((bi, tg))
    return out


def region_signature(facts, fn, start, others, mirror=False):
    """multiset of effects in the blocks reachable from `start` but not from every other arm"""
    sym = q.sym(facts, fn)
    mine = fn.reachable_from(start)
    common = set(mine)
    for o in others:
        common &= fn.reachable_from(o)
    region = sorted(mine - common)
    sig = []
    for b in region:
        blk = fn.blocks[b]
        if blk['cleanup']:
            continue
        for s in blk['s']:
            if s.get('x') and 'log' in s['x']:
                continue
            if s['k'] == 'assign' and not is_local(s['lhs']):
                lhs = render(strip(sym.place(s['lhs'])))
                rv = sym.rvalue(s['rv'])
                if mirror:
                    rv = mirror_sym(rv)
                txt = 'write %s = %s' % (lhs, render(strip(rv)))
                sig.append(mirror_text(txt) if mirror else txt)
        t = blk['t']
        if t.get('x') and 'log' in t['x']:
            continue
        if t['t'] == 'call':
            p = t['callee'].get('path') or 'indirect'
            if p.startswith('core::fmt') or p.startswith('std::fmt') or 'log' in p:
                continue
            args = [sym.operand(a) for a in t['args']]
            if mirror:
                args = [mirror_sym(a) for a in args]
            txt = 'call %s(%s)' % ('::'.join(p.split('::')[-2:]), ', '.join(render(strip(a)) for a in args))
            sig.append(mirror_text(txt) if mirror else txt)
        elif t['t'] == 'switch':
            txt = 'branch %s' % render(strip(sym.operand(t['discr'])))
            sig.append(mirror_text(txt) if mirror else txt)
    # local numbers are not part of the meaning (truncated definition chains, drop flags)
    sig = [re.sub(r'phi_\d+', 'phi', re.sub(r'\b_\d+\b', '_', x)) for x in sig]
    sig = [x for x in sig if x not in ('branch phi', 'branch _')]
    return sorted(sig)


def compare_arms(ctx, fn, name, sw, pairs):
    bi, tg = sw
    for a, b in pairs:
        if a not in tg or b not in tg:
            raise Inconclusive('%s: arm %s or %s not found' % (name, a, b))
        others_a = [tb for v, tb in tg.items() if v != a]
        others_b = [tb for v, tb in tg.items() if v != b]
        sa = region_signature(ctx.facts, fn, tg[a], others_a, mirror=True)
        sb = region_signature(ctx.facts, fn, tg[b], others_b, mirror=False)
        ctx.inst('%s|%s~%s' % (name, a, b), {'function': fn.path, 'effects in arm %s (mirrored)' % a: len(sa), 'effects in arm %s' % b: len(sb),
                                             'sample': sb[:3]})
        if sa != sb:
            only_a = [x for x in sa if x not in sb]
            only_b = [x for x in sb if x not in sa]
            ctx.viol('%s|asymmetric|%s~%s' % (fn.path, a, b), fn.blocks[tg[b]]['t']['at'],
                     '%s: the %s arm is not the mirror image of the %s arm (left<->right, v1<->v2, output pair swapped): a one-sided '
                     'edit breaks the join for one arrival order / one outer side' % (name, a, b),
                     {'only in mirrored %s' % a: only_a[:6], 'only in %s' % b: only_b[:6]})


@rule('C08', 'R3', 'mirror symmetry of the two join sides: Left~Right and LeftEnd~RightEnd arms are exact mirrors')
def c08_r3(ctx):
    facts = ctx.facts
    # keyed joins: process_item
    for adt in (JKO, JKI):
        f = facts.method(adt, 'process_item')
        sws = [s for s in be_switches(facts, f) if len(s[1]) == 4]
        if not sws:
            raise AnchorMissing('%s::process_item: no 4-way switch over BinaryElement' % adt)
        compare_arms(ctx, f, adt.split('::')[-1] + '::process_item', sws[0], [('Left', 'Right'), ('LeftEnd', 'RightEnd')])
    # hash join: the four call sites in next() pass mirrored argument tuples to the shared helpers
    nx = facts.method(JLH, 'next', trait=OP)
    sym = q.sym(facts, nx)
    for helper in ('add_item', 'side_ended'):
        calls = [(bi, t) for bi, t in nx.calls() if (t['callee'].get('path') or '').endswith('JoinLocalHash::<Key, Out1, Out2, Keyer1, Keyer2, OperatorChain>::' + helper)]
        if len(calls) != 2:
            raise AnchorMissing('JoinLocalHash::next must call %s exactly twice (found %d)' % (helper, len(calls)))
        rend = []
        for bi, t in calls:
            args = [sym.operand(a) for a in t['args']]
            rend.append(([render(strip(a)) for a in args], [closure_shape(facts, nx, a) for a in t['args']]))
        a0 = [mirror_text(x) for x in rend[0][0]]
        # closure arguments render with their def path: compare their shapes instead
        a0c = [x for x in a0 if 'closure' not in x]
        a1c = [x for x in rend[1][0] if 'closure' not in x]
        ctx.inst('JoinLocalHash::next|%s' % helper, {'first call': rend[0][0], 'second call': rend[1][0], 'closure shapes': [rend[0][1], rend[1][1]]})
        if a0c != a1c:
            ctx.viol('%s|asymmetric-call|%s' % (nx.path, helper), calls[1][1]['at'],
                     'the two calls of %s in JoinLocalHash::next are not mirror images: %s vs %s' % (helper, rend[0][0], rend[1][0]), None)
        sh0 = [s for s in rend[0][1] if s]
        sh1 = [s for s in rend[1][1] if s]
        if sh0 and sh1 and not (sh0[0] == tuple(reversed(sh1[0])) and sh0[0] != sh1[0]):
            ctx.viol('%s|pair-order|%s' % (nx.path, helper), calls[1][1]['at'],
                     'the make_pair closures of the two %s calls must be (x, y) and (y, x); found %s and %s' % (helper, sh0[0], sh1[0]), None)


def closure_shape(facts, fn, op):
    """for a closure operand `|x, y| (x, y)`: the argument indices in the returned tuple"""
    if op[0] == 'k' or not is_local(op[1]):
        return None
    cd = fn.locals[op[1][0]].get('closure')
    g = facts.fn(cd, required=False) if cd else None
    if g is None:
        return None
    sym = q.sym(facts, g)
    for blk in g.blocks:
        for s in blk['s']:
            if s['k'] == 'assign' and s['lhs'] == [0] and s['rv']['r'] == 'agg' and s['rv']['k'] == 'tuple':
                out = []
                for o in s['rv']['o']:
                    d = strip(sym.operand(o))
                    out.append(d[1] if d[0] == 'arg' else render(d))
                return tuple(out)
    return None


@rule('C09', 'R3', 'merge forwards every Left and Right element and drops only the end-of-side markers')
def c09_r3(ctx):
    facts = ctx.facts
    md = [f for f in facts.lib_fns() if f.kind == 'assoc' and f.name == 'merge_distinct']
    mg = [f for f in facts.lib_fns() if f.kind == 'assoc' and f.name == 'merge' and 'stream::Stream' in (f.impl_adt or '')]
    if not md and not mg:
        raise AnchorMissing('no merge combinator found')
    n = 0
    for f in md + mg:
        for g in facts.closures_of(f):
            sws = [s for s in be_switches(facts, g) if len(s[1]) >= 3]
            if not sws:
                continue
            n += 1
            sym = q.sym(facts, g)
            bi, tg = sws[0]
            table = {}
            for v, tb in tg.items():
                reach = g.reachable_from(tb)
                some = [s for b in reach for s in g.blocks[b]['s'] if s['k'] == 'assign' and s['rv']['r'] == 'agg' and s['rv'].get('adt') == 'std::option::Option']
                vals = set()
                # first Option aggregate reached from the arm start (arms are straight-line)
                b = tb
                seen = set()
                while b is not None and b not in seen:
                    seen.add(b)
                    hit = [s for s in g.blocks[b]['s'] if s['k'] == 'assign' and s['rv']['r'] == 'agg' and s['rv'].get('adt') == 'std::option::Option']
                    if hit:
                        vals.add(hit[0]['rv']['v'])
                        break
                    su = g.succ(b)
                    b = su[0] if len(su) == 1 else None
                table[v] = sorted(vals)
            ctx.inst('%s|filter' % f.name, {'closure': g.path, 'table': table})
            want = {'Left': ['Some'], 'Right': ['Some'], 'LeftEnd': ['None'], 'RightEnd': ['None']}
            for v, w in want.items():
                if table.get(v) != w:
                    ctx.viol('%s|merge-filter|%s' % (f.path, v), g.at,
                             'the merge filter maps BinaryElement::%s to %s (must be %s): %s' % (v, table.get(v), w,
                             'elements of one input would be dropped' if w == ['Some'] else 'an end marker would be emitted as data'), None)
    if n == 0:
        raise AnchorMissing('no merge filter closure switching over BinaryElement found')


@rule('C09', 'R4', 'zip pairs one element of each side per output, clears both stashes at the end of the iteration')
def c09_r4(ctx):
    facts = ctx.facts
    nx = facts.method('renoir::operator::zip::Zip', 'next', trait=OP)
    sym = q.sym(facts, nx)
    pops = {}
    pushes = {}
    clears = {}
    for bi, t in nx.calls():
        p = t['callee'].get('path') or ''
        m = p.rsplit('::', 1)[-1]
        if not p.startswith('std::collections::VecDeque') or not t['args']:
            continue
        recv = render(strip(sym.operand(t['args'][0])))
        if m == 'pop_front':
            pops.setdefault(recv, []).append((bi, t))
        elif m == 'push_back':
            pushes.setdefault(recv, []).append((bi, t))
        elif m == 'clear':
            clears.setdefault(recv, []).append((bi, t))
    ctx.inst('Zip::next|stashes', {'pop_front': {k: len(v) for k, v in pops.items()}, 'push_back': {k: len(v) for k, v in pushes.items()},
                                   'clear': {k: len(v) for k, v in clears.items()}})
    for st in ('self.stash1', 'self.stash2'):
        if len(pops.get(st, [])) != 1:
            ctx.viol('%s|pop-count|%s' % (nx.path, st), nx.at, 'Zip::next must pop exactly one element of %s per emitted pair (found %d pop sites)' % (st, len(pops.get(st, []))), None)
        if not clears.get(st):
            ctx.viol('%s|no-clear|%s' % (nx.path, st), nx.at, 'Zip::next does not clear %s at the end of an iteration: unmatched elements would pair with the next iteration' % st, None)
        else:
            for bi, t in clears[st]:
                dnf = q.op_cond_of_block(facts, nx, bi)
                if not q.cond_has(dnf, q.input_is('FlushAndRestart')):
                    ctx.viol('%s|clear-edge|%s' % (nx.path, st), t['at'], '%s is cleared on a path that is not the FlushAndRestart edge' % st, None)
    if pops.get('self.stash1') and pops.get('self.stash2'):
        b1, b2 = pops['self.stash1'][0][0], pops['self.stash2'][0][0]
        if not (nx.dominates(b1, b2) or nx.dominates(b2, b1)):
            ctx.viol('%s|unpaired-pop' % nx.path, nx.at, 'the two stashes are not popped together on the same path', None)
    # pushes go to the stash of their own side
    sws = be_switches(facts, nx)
    for st, side in (('self.stash1', 'Left'), ('self.stash2', 'Right')):
        for bi, t in pushes.get(st, []):
            dnf = q.cond_of_block(facts, nx, bi)
            if not q.cond_has(dnf, lambda a: a[0] == 'is' and a[2] == side):
                ctx.viol('%s|wrong-stash|%s' % (nx.path, st), t['at'], 'an element that is not a %s element is stashed in %s' % (side, st), None)


BSR = 'renoir::operator::start::binary::BinaryStartReceiver'


def select_symmetry(ctx):
    """BinaryStartReceiver::select serves two inputs that play the same role. Whatever it does with one side (which receive
    primitive, with which timeout, which cache / reset operation) it must do with the other side in the mirrored situation:
      (1) the multiset of side operations {(callee, arguments)} is closed under left<->right;
      (2) where the two sides are handled together (same block condition for the same operation on both sides), that condition is
          itself symmetric.
    Priority between the sides (`if left.cached .. else if right.cached`) only shows in the *conditions* of one-sided operations,
    which are not compared."""
    facts = ctx.facts
    sel = facts.method(BSR, 'select')
    sym = q.sym(facts, sel)
    ev = []
    for bi, t in sel.calls():
        p = t['callee'].get('path') or ''
        if t.get('x') and ('debug_assert' in t.get('x', '') or 'log' in t.get('x', '')):
            continue
        args = [render(strip(sym.operand(a))) for a in t['args']]
        txt = ' '.join(args)
        if not re.search(r'\b(left|right)\b', txt):
            continue
        if re.search(r'\bleft\b', txt) and re.search(r'\bright\b', txt):
            continue        # an operation on both sides at once (select over the two receivers) is its own mirror image
        name = '::'.join(p.split('::')[-2:])
        if name.endswith(('is_ended', 'is_terminated', 'cache_finished', 'as_mut', 'unwrap', 'deref', 'deref_mut', 'fmt', 'clone')) or 'fmt::' in p or 'panicking' in p:
            continue
        ev.append((bi, t, name, tuple(a[:160] for a in args)))
    if len(ev) < 8:
        raise AnchorMissing('BinaryStartReceiver::select: fewer than 8 side operations found (%d)' % len(ev))
    from collections import Counter
    cnt = Counter((n_, a_) for _, _, n_, a_ in ev)
    ctx.inst('select|side operations', {'operations': sorted('%s(%s)' % (n_, ', '.join(x[-50:] for x in a_)) for n_, a_ in cnt)[:24], 'count': len(ev)})
    for (n_, a_), c in sorted(cnt.items()):
        m = (n_, tuple(mirror_text(x) for x in a_))
        if cnt.get(m, 0) != c:
            site = [t for _, t, n2, a2 in ev if (n2, a2) == (n_, a_)][0]
            ctx.viol('%s|asymmetric|%s' % (sel.path, n_), site['at'],
                     'BinaryStartReceiver::select performs `%s(%s)` %d time(s) but the mirrored operation `%s(%s)` %d time(s): the two '
                     'inputs are not treated alike (one side can be starved, waited on after it ended, or polled without the timeout)'
                     % (n_, ', '.join(x[-60:] for x in a_), c, m[0], ', '.join(x[-60:] for x in m[1]), cnt.get(m, 0)), None)
    # (2) joint handling: same operation on both sides under the same condition -> the condition must be symmetric
    by_block = {}
    for bi, t, n_, a_ in ev:
        by_block.setdefault(bi, []).append((n_, a_, t))
    import itertools

    def as_lits(dnf):
        """clauses as sets of (variable text, polarity); non-boolean atoms become opaque variables"""
        out = []
        for c in dnf:
            lits = set()
            for a in c:
                if a[0] == 'bool':
                    lits.add((a[1], bool(a[2])))
                else:
                    lits.add((q.show_dnf([[a]])[0], True))
            out.append(lits)
        return out

    def equivalent(d1, d2):
        vs = sorted({v for c in d1 + d2 for v, _ in c})
        if len(vs) > 14:
            return None
        for combo in itertools.product([False, True], repeat=len(vs)):
            val = dict(zip(vs, combo))
            r1 = any(all(val[v] == pol for v, pol in c) for c in d1)
            r2 = any(all(val[v] == pol for v, pol in c) for c in d2)
            if r1 != r2:
                return False
        return True
    conds = {}
    for bi, t, n_, a_ in ev:
        conds[(bi, n_, a_)] = as_lits(q.cond_of_block(facts, sel, bi))
    seen = set()
    for (bi, n_, a_), d in conds.items():
        m = (n_, tuple(mirror_text(x) for x in a_))
        if m == (n_, a_):
            continue
        for (b2, n2, a2), d2 in conds.items():
            if (n2, a2) == m and equivalent(d, d2) and (min(bi, b2), max(bi, b2), n_) not in seen:
                seen.add((min(bi, b2), max(bi, b2), n_))
                md = [{(mirror_text(v), pol) for v, pol in c} for c in d]
                okm = equivalent(md, d)
                ctx.inst('select|joint %s' % n_, {'condition': sorted(sorted('%s%s' % ('' if pol else '!', v[-50:]) for v, pol in c) for c in d)[:3], 'symmetric': okm})
                if okm is False:
                    site = [t for _, t, n3, a3 in ev if (n3, a3) == (n_, a_)][0]
                    ctx.viol('%s|asymmetric-condition|%s' % (sel.path, n_), site['at'],
                             'both sides are `%s` under the same condition, which is not symmetric in left/right (%s): one side\'s state '
                             '(ended / cache finished) is not consulted before both are handled'
                             % (n_, sorted(sorted('%s%s' % ('' if pol else '!', v[-40:]) for v, pol in c) for c in d)[:2]), None)


@rule('C11', 'R4', 'binary start treats its two inputs symmetrically (receive primitive, timeout, cache and reset operations)')
def c11_r4(ctx):
    select_symmetry(ctx)


@rule('C09', 'R5', 'merge / zip / join inputs are polled symmetrically: no side is waited on after it ended, none is starved')
def c09_r5(ctx):
    select_symmetry(ctx)


@rule('C18', 'R7', 'the receive timeout that drives FlushBatch is passed to whichever side is polled')
def c18_r7(ctx):
    select_symmetry(ctx)


@rule('C04', 'R9', 'two-input blocks keep receiving from the side that is still alive')
def c04_r9(ctx):
    select_symmetry(ctx)
