"""E6 witness rules (thorough tier): compile_fail doc-tests with compiling twins."""
from ..core import rule, Inconclusive
from .. import witness, gen

SPEC = {
    'C08': [('W1BroadcastHashOuter', 'an outer join can be requested after ship_broadcast_right().local_hash(): unmatched right rows would be emitted once per replica'),
            ('W2BroadcastSortMergeOuter', 'an outer join can be requested after ship_broadcast_right().local_sort_merge()')],
    'C04': [('W4OutputOnce', 'StreamOutput::get no longer consumes the handle: a sink result could be taken twice / observed half-way'),
            ('W5ExecuteOnce', 'execute_blocking no longer consumes the context: a job could be started twice')],
    'C10': [('W6StateSetterPrivate', 'IterationStateHandle::set is callable from user code: a loop body could write the state while replicas read it')],
}


def witness_rule(ctx, prop):
    res, out = witness.run(gen.REPO)
    for name, msg in SPEC[prop]:
        r = res.get(name)
        ctx.inst(name, {'compile_fail witness rejected with the expected error code': bool(r and r.get('fail_ok')), 'compiling twin accepted': bool(r and r.get('twin_ok'))})
        if not r or 'twin_ok' not in r or 'fail_ok' not in r:
            raise Inconclusive('witness %s did not run' % name)
        if not r['twin_ok']:
            raise Inconclusive('the compiling twin of %s does not compile any more (API changed): the witness is void' % name)
        if not r['fail_ok']:
            ctx.viol('witness|%s' % name, 'witness/src/lib.rs', 'type-level witness %s now compiles: %s' % (name, msg), None)


@rule('C08', 'R2', 'type-level witness: no outer join on a broadcast side (compile_fail E0599 + compiling twin)', tier='thorough')
def c08_r2(ctx):
    witness_rule(ctx, 'C08')


@rule('C04', 'R7', 'type-level witnesses: a sink result is taken once, a job is executed once (compile_fail E0382 + twins)', tier='thorough')
def c04_r7(ctx):
    witness_rule(ctx, 'C04')


@rule('C10', 'R7', 'type-level witness: the loop state setter is unreachable from user code (compile_fail E0624 + twin)', tier='thorough')
def c10_r7(ctx):
    witness_rule(ctx, 'C10')
