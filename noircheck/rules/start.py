"""Rules about the block input (`Start`, `WatermarkFrontier`): C04.R2, C06.R2, C10.R4, C17.R1/R2, C18.R3, C02.R4."""
from ..core import rule, Inconclusive
from ..facts import AnchorMissing, SE, op_fn, op_const, is_local, self_field
from ..symex import render, strip, roots, find_calls
from .. import q

START = 'renoir::operator::start::Start'
WF = 'renoir::operator::start::watermark_frontier::WatermarkFrontier'
WF_UPDATE = WF + '::update'
OP = 'renoir::operator::Operator'


def start_next(facts):
    return facts.method(START, 'next', trait=OP)


def start_setup(facts):
    return facts.method(START, 'setup', trait=OP)


def _counter_rule(ctx, fn, field, variant, reset_required):
    """structural accounting of one end-marker counter of Start::next"""
    facts = ctx.facts
    sym = q.sym(facts, fn)
    ws = q.self_writes(fn, field)
    dec, resets, other = [], [], []
    for bi, si, f, s in ws:
        d = strip(sym.rvalue(s['rv']))
        txt = render(d)
        # `self.f -= 1` : field 0 of SubWithOverflow(self.f, const 1)
        if d[0] == 'field' and d[1][0] == 'bin' and d[1][1] in ('SubWithOverflow', 'Sub', 'SubUnchecked') \
                and render(strip(d[1][2])) == 'self.' + field and d[1][3] == ('const', '1_usize'):
            dec.append((bi, s))
        elif d[0] == 'bin' and d[1] in ('Sub', 'SubUnchecked') and render(strip(d[2])) == 'self.' + field and d[3] == ('const', '1_usize'):
            dec.append((bi, s))
        elif 'self.num_previous_replicas' == txt:
            resets.append((bi, s))
        else:
            other.append((bi, s, txt))
    site = 'Start::next|' + field
    ctx.inst(site, {'function': fn.path, 'counter': field, 'decrements': [s['at'] for _, s in dec],
                    'resets': [s['at'] for _, s in resets], 'other writes': [t for _, _, t in other]})
    key = '%s|%s' % (fn.path, field)
    if other:
        ctx.viol(key + '|foreign-write', other[0][1]['at'],
                 'Start::next writes `%s` with `%s`: the end-marker counter may only be decremented by one on a %s item '
                 'or reset to the number of upstream replicas' % (field, other[0][2], variant), None)
    if len(dec) != 1:
        ctx.viol(key + '|decrement-count', fn.at,
                 'Start::next must decrement `%s` at exactly one site, found %d' % (field, len(dec)), None)
    for bi, s in dec:
        dnf = q.cond_of_block(facts, fn, bi)
        if not q.cond_has(dnf, lambda a: a[0] == 'is' and a[2] == variant):
            ctx.viol(key + '|decrement-wrong-edge', s['at'],
                     '`%s` is decremented on a path that is not guarded by "the received item is %s" (conditions: %s)'
                     % (field, variant, q.show_dnf(dnf)), None)
    # `return V` only under counter == 0
    rets = q.returns_variant(fn, SE, variant)
    if not rets:
        ctx.viol(key + '|no-return', fn.at, 'Start::next never returns %s' % variant, None)
    for bi, s in rets:
        dnf = q.cond_of_block(facts, fn, bi)
        ok = q.cond_has(dnf, lambda a: a[0] == 'cmp' and ('self.' + field) in (a[1], a[2]) and '0_usize' in (a[1], a[2])
                        and a[3] == frozenset(['=']))
        if not ok:
            ctx.viol(key + '|return-guard', s['at'],
                     '`return %s` in Start::next is not guarded by `%s == 0` (conditions: %s)' % (variant, field, q.show_dnf(dnf)), None)
        if reset_required:
            # the reset must be on the way to this return
            if not any(fn.dominates(rb, bi) and fn.dominates(bi_guard(fn, bi), rb) for rb, _ in resets):
                ctx.viol(key + '|no-reset', s['at'],
                         '`%s` is not reset to `num_previous_replicas` on the path that returns %s: the next iteration '
                         'would end immediately' % (field, variant), None)


def bi_guard(fn, b):
    return 0


@rule('C04', 'R2', 'Start accounting: one Terminate / FlushAndRestart per upstream replica, counters initialised from the replica list')
def c04_r2(ctx):
    facts = ctx.facts
    nx = start_next(facts)
    _counter_rule(ctx, nx, 'missing_terminate', 'Terminate', False)
    _counter_rule(ctx, nx, 'missing_flush_and_restart', 'FlushAndRestart', True)
    su = start_setup(facts)
    sym = q.sym(facts, su)
    got = {}
    for bi, si, f, s in q.self_writes(su):
        got[f] = (render(strip(sym.rvalue(s['rv']))), s['at'])
    ctx.inst('Start::setup|init', {'function': su.path, 'writes': {k: v[0] for k, v in got.items()}})
    exp = {
        'missing_terminate': 'self.num_previous_replicas',
        'missing_flush_and_restart': 'self.num_previous_replicas',
    }
    for f, e in exp.items():
        if f not in got or got[f][0] != e:
            ctx.viol('%s|init|%s' % (su.path, f), su.at,
                     'Start::setup must initialise `%s` from `%s`, found `%s`' % (f, e, got.get(f, ('nothing',))[0]), None)
    npr = got.get('num_previous_replicas', ('', ''))[0]
    if 'prev_replicas' not in npr or 'len' not in npr:
        ctx.viol('%s|init|num_previous_replicas' % su.path, su.at,
                 'Start::setup must set `num_previous_replicas` to the length of `receiver.prev_replicas()`, found `%s`' % npr, None)


@rule('C17', 'R1', 'the result of every WatermarkFrontier::update call is used (an advanced frontier is emitted)')
def c17_r1(ctx):
    facts = ctx.facts
    sites = facts.callers_of(WF_UPDATE)
    if not sites:
        raise AnchorMissing('no caller of %s' % WF_UPDATE)
    for f, bi in sites:
        t = f.blocks[bi]['t']
        sym = q.sym(facts, f)
        ts_arg = render(strip(sym.operand(t['args'][2]))) if len(t['args']) > 2 else '?'
        disc = f.result_discarded(bi)
        site = '%s|update(ts=%s)' % (f.path, ts_arg if (len(t['args']) > 2 and t['args'][2][0] == 'k') else 'received')
        ctx.inst(site, {'caller': f.path, 'at': t['at'], 'ts argument': ts_arg, 'result discarded': disc})
        if disc:
            ctx.viol('%s|discarded|update(ts=%s)' % (f.path, ts_arg if (len(t['args']) > 2 and t['args'][2][0] == 'k') else 'received'), t['at'],
                     'the Option<Timestamp> returned by WatermarkFrontier::update(.., %s) is discarded: when this call '
                     'advances the frontier, no watermark is emitted for it' % ts_arg, None)
        else:
            # the Some payload must reach a Watermark construction
            d = t['dest']
            wm = q.aggregates(f, SE, 'Watermark')
            ok = False
            for wb, s in wm:
                x = sym.operand(s['rv']['o'][0])
                if find_calls(x, lambda c: c[1] == WF_UPDATE):
                    ok = True
            if not ok:
                ctx.viol('%s|unused-frontier' % f.path, t['at'],
                         'no StreamElement::Watermark in %s is built from the value returned by WatermarkFrontier::update' % f.path, None)


@rule('C17', 'R2', 'a replica that ended its iteration counts as +infinity in the frontier; the frontier is rebuilt per iteration')
def c17_r2(ctx):
    facts = ctx.facts
    nx = start_next(facts)
    sym = q.sym(facts, nx)
    found = False

    def far_guard_ok(dnf):
        return q.cond_has(dnf, lambda a: a[0] == 'is' and a[2] == 'FlushAndRestart')

    for bi, t in q.calls(nx, WF_UPDATE):
        if len(t['args']) > 2 and 'MAX' in (op_const(t['args'][2]) or ''):
            found = True
            dnf = q.cond_of_block(facts, nx, bi)
            sender = render(strip(sym.operand(t['args'][1])))
            ctx.inst('Start::next|update(MAX)', {'at': t['at'], 'sender argument': sender, 'conditions': q.show_dnf(dnf)})
            if not far_guard_ok(dnf):
                ctx.viol('%s|max-wrong-edge' % nx.path, t['at'],
                         'WatermarkFrontier::update(sender, MAX) is not guarded by "the received item is FlushAndRestart"', None)
            if 'batch_iter' not in sender:
                ctx.viol('%s|max-wrong-sender' % nx.path, t['at'],
                         'the replica marked as ended (`%s`) is not the sender of the current batch' % sender, None)
    if not found:
        # the marking may live in a helper of the frontier: it must then be unconditional inside the helper
        for bi, t in nx.calls():
            callee = facts.fn(t['callee'].get('resolved') or t['callee'].get('path') or '', required=False)
            if callee is None or callee.impl_adt != WF or callee.path == WF_UPDATE:
                continue
            dnf_site = q.cond_of_block(facts, nx, bi)
            if not far_guard_ok(dnf_site):
                continue
            for b2, t2 in q.calls(callee, WF_UPDATE):
                if len(t2['args']) > 2 and 'MAX' in (op_const(t2['args'][2]) or ''):
                    inner = q.cond_of_block(facts, callee, b2)
                    extra = [a for c in inner for a in c]
                    ctx.inst('Start::next|%s -> update(MAX)' % callee.name, {'at': t2['at'], 'conditions inside the helper': q.show_dnf(inner)})
                    found = True
                    if extra:
                        ctx.viol('%s|max-conditional' % callee.path, t2['at'],
                                 'a replica that ended its iteration is entered as +infinity only under %s: otherwise its last watermark '
                                 'keeps counting in the minimum and, once the others pass it, the frontier freezes until the end of the '
                                 'stream' % q.show_dnf(inner), None)
    # reset on the FlushAndRestart return path, rebuild in setup
    rs = q.calls(nx, WF + '::reset')
    rets = q.returns_variant(nx, SE, 'FlushAndRestart')
    ctx.inst('Start::next|frontier.reset', {'reset calls': [t['at'] for _, t in rs]})
    for rb, s in rets:
        if not any(nx.dominates(b, rb) and not nx.dominates(b, 2) for b, _ in rs):
            ctx.viol('%s|no-frontier-reset' % nx.path, s['at'],
                     '`return FlushAndRestart` is not preceded by watermark_frontier.reset(): watermarks of the previous '
                     'iteration would be compared with those of the next', None)
    su = start_setup(facts)
    ssym = q.sym(facts, su)
    ok = False
    for bi, si, f, s in q.self_writes(su, 'watermark_frontier'):
        d = render(strip(ssym.rvalue(s['rv'])))
        if 'WatermarkFrontier::new' in d and 'prev_replicas' in d:
            ok = True
    ctx.inst('Start::setup|frontier', {'rebuilt from prev_replicas()': ok})
    if not ok:
        ctx.viol('%s|frontier-init' % su.path, su.at,
                 'Start::setup does not build the watermark frontier from receiver.prev_replicas()', None)


@rule('C06', 'R2', 'the watermark frontier is the minimum over all upstream replicas and is None until every replica has one')
def c06_r2(ctx):
    facts = ctx.facts
    # The frontier function, whatever its form (fold + helper, loop with accumulators, all()/min() adapters ...); read on the
    # helper-inlined body of `update` (compute_frontier is a private helper) and its closures:
    #   (a) the replica watermarks are combined with a minimum and with nothing else (min / Iterator::min / a `<` selection),
    #   (b) "every replica has a watermark" is established by a test of Some/None on the entries,
    #   (c) the Some(..) frontier is produced only under that condition.
    up0 = facts.method(WF, 'update')
    fam = facts.family(up0)
    MINS = ('std::cmp::min', 'std::cmp::Ord::min', 'std::iter::Iterator::min', 'std::iter::Iterator::min_by', 'std::iter::Iterator::min_by_key')
    MAXS = ('std::cmp::max', 'std::cmp::Ord::max', 'std::iter::Iterator::max', 'std::iter::Iterator::max_by', 'std::iter::Iterator::max_by_key',
            'std::iter::Iterator::last', 'std::iter::Iterator::next', 'std::iter::Iterator::sum', 'std::iter::Iterator::nth')
    mins, others, tests = [], [], []
    helper_fns = []
    for f in fam:
        sym = q.sym(facts, f)
        for bi, t in f.calls():
            pth = t['callee'].get('path') or ''
            rs = t['callee'].get('resolved') or ''
            fnargs = [strip(sym.operand(a)) for a in t['args']]
            fnargs = [x[1] for x in fnargs if x[0] == 'fn']
            if pth in MINS or any(x in MINS for x in fnargs):
                mins.append(t['at'])
            if pth in MAXS[:5] or any(x in MAXS[:5] for x in fnargs):
                others.append((t['at'], pth if pth in MAXS else fnargs))
            if pth.endswith('Option::<T>::is_some') or pth.endswith('Option::<T>::is_none') or any(x.endswith('::is_some') or x.endswith('::is_none') for x in fnargs):
                tests.append(t['at'])
            # a private free helper that receives the combiner (opt_join): its body must apply it
            if 'watermark_frontier::' in pth and fnargs:
                helper_fns.append(pth)
    ctx.inst('frontier|combiner', {'minimum taken at': mins, 'other selections': [a for a, _ in others], 'Some/None tests at': tests})
    if others:
        ctx.viol('%s|combiner' % WF, others[0][0], 'the watermark frontier combines replica watermarks with `%s`; it must be the minimum: a block '
                 'would forward a watermark that some upstream replica has not reached yet' % (others[0][1],), None)
    if not mins:
        ctx.viol('%s|combiner' % WF, up0.at, 'no minimum (std::cmp::min / Iterator::min) over the replica watermarks is taken when the frontier is recomputed', None)
    if not tests:
        ctx.viol('%s|completeness' % WF, up0.at,
                 'the frontier computation no longer tests the entries for Some/None: the frontier could be emitted '
                 'before every upstream replica has produced a watermark', None)
    for hp in set(helper_fns):
        oj = facts.fn(hp, required=False)
        if oj is None:
            continue
        ind = [t for _, t in oj.calls() if t['callee'].get('indirect')]
        ctx.inst('%s|indirect-call' % hp.rsplit('::', 1)[-1], {'calls of the combiner': len(ind)})
        if len(ind) != 1:
            ctx.viol('%s|combiner-call' % oj.path, oj.at, '%s must apply its combiner exactly once (found %d calls)' % (hp.rsplit('::', 1)[-1], len(ind)), None)
    # (c) in the function that computes the frontier: the value stored into self.front / returned as the new frontier is Some only
    # under a condition (a bool established by the completeness test); a compute_frontier that returns the minimum unconditionally
    # has no branch at all between the scan and the return
    cf = facts.method(WF, 'compute_frontier', required=False)
    if cf is not None:
        guarded = False
        for bi, blk in enumerate(cf.blocks):
            if blk['cleanup']:
                continue
            for s_ in blk['s']:
                if s_['k'] == 'assign' and s_['lhs'] == [0] and not (s_['rv']['r'] == 'agg' and s_['rv'].get('v') == 'None'):
                    dnf = q.cond_of_block(facts, cf, bi)
                    ctx.inst('compute_frontier|return-min|%d' % bi, {'conditions': q.show_dnf(dnf)[:4]})
                    if q.cond_has(dnf, lambda a: a[0] in ('bool', 'is', 'isnot', 'isin')):
                        guarded = True
                    else:
                        ctx.viol('%s|incomplete-front' % cf.path, s_['at'],
                                 'compute_frontier returns the minimum on a path that is not guarded by "all replicas have a watermark"', None)
            t_ = blk['t']
            if t_['t'] == 'call' and t_.get('dest') == [0]:
                dnf = q.cond_of_block(facts, cf, bi)
                ctx.inst('compute_frontier|return-call|%d' % bi, {'conditions': q.show_dnf(dnf)[:4]})
                if q.cond_has(dnf, lambda a: a[0] in ('bool', 'is', 'isnot', 'isin')) or 'bool>::then' in (t_['callee'].get('path') or '') \
                        or (t_['callee'].get('path') or '').startswith(('std::option::Option::<T>::filter', 'std::option::Option::<T>::and')):
                    guarded = True
                else:
                    ctx.viol('%s|incomplete-front' % cf.path, t_['at'],
                             'compute_frontier returns the minimum on a path that is not guarded by "all replicas have a watermark"', None)
    # update: early exit keeps the entry when the stored watermark is >= the new one; returns only the new front
    up = facts.method(WF, 'update')
    stores = []
    for bi, blk in enumerate(up.blocks):
        if blk['cleanup']:
            continue
        for s in blk['s']:
            if s['k'] == 'assign' and not is_local(s['lhs']) and self_field(s['lhs']) is None and s['lhs'][1:2] == ['*']:
                stores.append((bi, s))
    ctx.inst('update|entry-store', {'stores': [s['at'] for _, s in stores]})
    if len(stores) != 1:
        raise Inconclusive('expected one store into the frontier entry in WatermarkFrontier::update, found %d' % len(stores))
    bi, s = stores[0]
    dnf = q.cond_of_block(facts, up, bi)
    ctx.inst('update|store-guard', {'conditions': q.show_dnf(dnf)})
    for c in dnf:
        cm = [a for a in c if a[0] == 'cmp']
        some = any(a[0] == 'is' and a[2] == 'Some' for a in c)
        if some:
            # stored {<} ts  (with operand order normalised: the stored value mentions index_mut / map)
            okc = False
            for a in cm:
                stored_first = ('map' in a[1] or 'index' in a[1].lower())
                rel = a[3]
                if (stored_first and rel == frozenset(['<'])) or (not stored_first and rel == frozenset(['>'])):
                    okc = True
            if not okc:
                ctx.viol('%s|regress' % up.path, s['at'],
                         'WatermarkFrontier::update overwrites a replica\'s watermark on a path where the stored one is not '
                         'strictly smaller than the new one (conditions: %s): an older or equal watermark could lower or '
                         're-announce the frontier' % q.show_dnf([c]), None)
    sym = q.sym(facts, up)
    for rb, rs in q.aggregates(up, 'std::option::Option', 'Some'):
        if rs['lhs'] != [0]:
            continue
        val = render(strip(sym.operand(rs['rv']['o'][0])))
        # the new frontier is whatever is stored into self.front in this call: the payload must be that value (the same local,
        # through copies and tuple fields) or a read of self.front that happens AFTER the store
        stores_f = [(wb, si, ws) for wb, si, fld, ws in q.self_writes(up, 'front')]
        fronts = set()
        for wb, si, ws in stores_f:
            o_ = ws['rv'].get('o')
            if ws['rv']['r'] == 'use' and o_ and o_[0] != 'k':
                fronts.add(q.base_local(up, o_))

        def after_store(b, i):
            return any((wb == b and si < i) or (wb != b and up.dominates(wb, b)) for wb, si, _ in stores_f)

        def origin(pl, pos, depth=0):
            # -> 'new' | 'old' | 'other'
            if depth > 8:
                return 'other'
            if self_field(pl) == 'front':
                return 'new' if after_store(*pos) else 'old'
            loc = pl[0]
            if loc in fronts:
                return 'new'
            d = up.single_def(loc)
            if d is None or d[1] == 'T':
                return 'other'
            node = up.def_node(d)
            rv = node['rv']
            if rv['r'] in ('use', 'cast') and rv['o'][0] != 'k':
                return origin(rv['o'][1] + pl[1:], d, depth + 1)
            if rv['r'] == 'ref':
                rest = pl[1:]
                if rest and rest[0] == '*':
                    rest = rest[1:]
                return origin(rv['p'] + rest, d, depth + 1)
            if rv['r'] == 'agg' and rv['k'] == 'tuple' and len(pl) > 1 and isinstance(pl[1], list) and pl[1][0] == 'f':
                o2 = rv['o'][pl[1][1]]
                if o2[0] == 'k':
                    return 'other'
                return origin(o2[1] + pl[2:], d, depth + 1)
            return 'other'
        pay = rs['rv']['o'][0]
        org = origin(pay[1], (rb, len(up.blocks[rb]['s']))) if pay[0] != 'k' else 'other'
        ctx.inst('update|return Some', {'at': rs['at'], 'payload': val, 'origin': org})
        if org != 'new':
            ctx.viol('%s|returns-other' % up.path, rs['at'],
                     'WatermarkFrontier::update returns Some(%s) (%s): only the newly computed frontier may be announced'
                     % (val, 'the frontier as it was before this update' if org == 'old' else 'not the value stored in self.front'), None)


@rule('C10', 'R4', 'after an iteration ends, Start lets no element of the next iteration pass before the new loop state is installed')
def c10_r4(ctx):
    facts = ctx.facts
    nx = start_next(facts)
    sym = q.sym(facts, nx)
    # (a) FlushAndRestart return path sets wait_for_state = true and state_generation += 2
    rets = q.returns_variant(nx, SE, 'FlushAndRestart')
    w = [(bi, s) for bi, si, f, s in q.self_writes(nx, 'wait_for_state')]
    gen = [(bi, s) for bi, si, f, s in q.self_writes(nx, 'state_generation')]
    wt = [(bi, s) for bi, s in w if s['rv']['r'] == 'use' and s['rv']['o'][:2] == ['k', 'true'] or s['rv'].get('o', [None, None])[1] == 'true']
    ctx.inst('Start::next|wait_for_state', {'writes': [(s['at'], render(sym.rvalue(s['rv']))) for _, s in w],
                                            'generation writes': [(s['at'], render(strip(sym.rvalue(s['rv'])))) for _, s in gen]})
    for rb, s in rets:
        if not any(render(sym.rvalue(ws['rv'])) == 'true' and nx.dominates(bi, rb) for bi, ws in w):
            ctx.viol('%s|no-wait-flag' % nx.path, s['at'],
                     '`return FlushAndRestart` does not set wait_for_state = true: elements of the next round could be '
                     'released before the leader has installed the new state', None)
        okg = False
        for bi, gs in gen:
            d = strip(sym.rvalue(gs['rv']))
            txt = render(d)
            if 'self.state_generation' in txt and '2_usize' in txt and 'Add' in txt and nx.dominates(bi, rb):
                okg = True
        if not okg:
            ctx.viol('%s|generation-step' % nx.path, s['at'],
                     '`return FlushAndRestart` does not advance state_generation by 2 (lock + unlock of one round)', None)
    # (b) every return of a data message is dominated by the wait_for_state test
    waits = q.calls_suffix(nx, 'IterationStateLock::wait_for_update')
    ctx.inst('Start::next|wait_for_update', {'calls': [t['at'] for _, t in waits]})
    if not waits:
        ctx.viol('%s|no-wait' % nx.path, nx.at, 'Start::next never calls IterationStateLock::wait_for_update', None)
    for bi, t in waits:
        arg = render(strip(sym.operand(t['args'][1])))
        if arg != 'self.state_generation':
            ctx.viol('%s|wait-arg' % nx.path, t['at'], 'wait_for_update is called with `%s` instead of self.state_generation' % arg, None)
        dnf = q.cond_of_block(facts, nx, bi)
        if not q.cond_has(dnf, lambda a: a[0] == 'bool' and 'wait_for_state' in a[1] and a[2] is True):
            ctx.viol('%s|wait-guard' % nx.path, t['at'], 'wait_for_update is not guarded by `self.wait_for_state`', None)
    # the `return msg` (a moved received item) must come after the wait test
    test_blocks = [bi for bi, blk in enumerate(nx.blocks) if not blk['cleanup'] and blk['t']['t'] == 'switch'
                   and 'wait_for_state' in render(sym.operand(blk['t']['discr']))]
    for bi, blk in enumerate(nx.blocks):
        if blk['cleanup']:
            continue
        for s in blk['s']:
            if s['k'] == 'assign' and s['lhs'] == [0] and s['rv']['r'] == 'use' and s['rv']['o'][0] in ('m', 'c'):
                ctx.inst('Start::next|return msg', {'at': s['at'], 'wait tests': len(test_blocks)})
                if not any(nx.dominates(tb, bi) for tb in test_blocks):
                    ctx.viol('%s|return-before-wait' % nx.path, s['at'],
                             'a received element is returned on a path that does not pass the `wait_for_state` test', None)


@rule('C18', 'R3', 'idle detection: Start turns a receive timeout into FlushBatch exactly once, then blocks')
def c18_r3(ctx):
    facts = ctx.facts
    nx = start_next(facts)
    sym = q.sym(facts, nx)
    rt = q.calls(nx, 'renoir::operator::start::StartReceiver::recv_timeout')
    rv = q.calls(nx, 'renoir::operator::start::StartReceiver::recv')
    if not rt or not rv:
        raise AnchorMissing('Start::next must call both StartReceiver::recv_timeout and ::recv')
    for bi, t in rt:
        dnf = q.cond_of_block(facts, nx, bi)
        ctx.inst('Start::next|recv_timeout', {'at': t['at'], 'conditions': q.show_dnf(dnf)})
        okflag = q.cond_has(dnf, lambda a: (a[0] == 'bool' and 'already_timed_out' in a[1] and a[2] is False)
                            or (a[0] in ('int', 'intnot') and 'already_timed_out' in a[1]))
        okdelay = q.cond_has(dnf, lambda a: a[0] == 'is' and 'max_delay' in a[1] and a[2] == 'Some')
        if not okflag or not okdelay:
            ctx.viol('%s|timeout-guard' % nx.path, t['at'],
                     'recv_timeout must be used iff !already_timed_out && max_delay.is_some() (conditions: %s)' % q.show_dnf(dnf), None)
    # the Err arm builds a FlushBatch single message and latches already_timed_out
    fb = [(bi, s) for bi, s in q.aggregates(nx, SE, 'FlushBatch')]
    ctx.inst('Start::next|FlushBatch', {'constructions': [s['at'] for _, s in fb]})
    if not fb:
        ctx.viol('%s|no-flushbatch' % nx.path, nx.at, 'Start::next never generates FlushBatch on a receive timeout', None)
    for bi, s in fb:
        dnf = q.cond_of_block(facts, nx, bi)
        if not q.cond_has(dnf, lambda a: a[0] == 'is' and a[2] == 'Err'):
            ctx.viol('%s|flushbatch-not-on-timeout' % nx.path, s['at'], 'FlushBatch is generated outside the Err arm of recv_timeout', None)
        lat = [ws for wb, si, f, ws in q.self_writes(nx, 'already_timed_out') if render(sym.rvalue(ws['rv'])) == 'true' and (nx.dominates(wb, bi) or nx.dominates(bi, wb) or wb == bi)]
        if not lat:
            ctx.viol('%s|no-timeout-latch' % nx.path, s['at'], 'the timeout arm does not set already_timed_out = true: Start would emit FlushBatch forever instead of blocking', None)
    for bi, t in rv:
        clr = [ws for wb, si, f, ws in q.self_writes(nx, 'already_timed_out') if render(sym.rvalue(ws['rv'])) == 'false' and nx.dominates(wb, bi)]
        ctx.inst('Start::next|recv', {'at': t['at'], 'clears already_timed_out': bool(clr)})
        if not clr:
            ctx.viol('%s|latch-not-cleared' % nx.path, t['at'], 'the blocking recv() path does not clear already_timed_out: idle detection would work only once', None)
    # max_delay comes from the batch mode
    su = start_setup(facts)
    ssym = q.sym(facts, su)
    md = [render(strip(ssym.rvalue(s['rv']))) for bi, si, f, s in q.self_writes(su, 'max_delay')]
    ctx.inst('Start::setup|max_delay', {'value': md})
    if not any('max_delay' in m and 'batch_mode' in m for m in md):
        ctx.viol('%s|max-delay-source' % su.path, su.at, 'Start::setup does not take max_delay from metadata.batch_mode.max_delay()', None)


@rule('C02', 'R4', 'a received batch is drained completely before the next one is received; receivers are single-consumer')
def c02_r4(ctx):
    facts = ctx.facts
    nx = start_next(facts)
    recvs = q.calls(nx, 'renoir::operator::start::StartReceiver::recv_timeout', 'renoir::operator::start::StartReceiver::recv')
    for bi, t in recvs:
        dnf = q.cond_of_block(facts, nx, bi)
        ctx.inst('Start::next|%s' % t['callee']['path'].split('::')[-1], {'at': t['at'], 'conditions': q.show_dnf(dnf)})
        if not q.cond_has(dnf, lambda a: a[0] == 'is' and 'batch_iter' in a[1] and a[2] == 'None'):
            ctx.viol('%s|recv-mid-batch|%s' % (nx.path, t['callee']['path'].split('::')[-1]), t['at'],
                     'a new batch is received on a path where the current batch iterator is not known to be exhausted '
                     '(`batch_iter` is None): elements of the half-consumed batch would be lost', None)
    # batch_iter is cleared only when the iterator returned None
    for bi, si, f, s in q.self_writes(nx, 'batch_iter'):
        d = render(strip(q.sym(facts, nx).rvalue(s['rv'])))
        if 'None' in d:
            dnf = q.cond_of_block(facts, nx, bi)
            ctx.inst('Start::next|batch_iter=None', {'at': s['at'], 'conditions': q.show_dnf(dnf)})
            if not q.cond_has(dnf, lambda a: a[0] == 'is' and 'next' in a[1] and a[2] == 'None'):
                ctx.viol('%s|batch-dropped' % nx.path, s['at'],
                         'the current batch is discarded on a path where its iterator has not returned None', None)
    # no Clone for the receiving ends
    for adt in ('renoir::network::network_channel::NetworkReceiver', 'renoir::channel::Receiver', 'renoir::block::batcher::Batcher'):
        facts.adt(adt)
        has = facts.adt_has_impl(adt, 'std::clone::Clone')
        ctx.inst('no-Clone|' + adt.split('::')[-1], {'adt': adt, 'implements Clone': has}, nontrivial=False)
        if has:
            ctx.viol('%s|clone' % adt, facts.adt(adt)['at'],
                     '%s implements Clone: two consumers could split (or two producers duplicate) the element sequence of one link' % adt, None)



@rule('C06', 'R7', 'the watermark frontier is rebuilt completely at the end of an iteration: reset() restores every field that update() can change')
def c06_r7(ctx):
    frontier_reset_complete(ctx)


@rule('C17', 'R5', 'the watermark frontier is rebuilt completely at the end of an iteration: reset() restores every field that update() can change')
def c17_r5(ctx):
    frontier_reset_complete(ctx)


def frontier_reset_complete(ctx):
    """Start::next calls WatermarkFrontier::reset() when an iteration ends (C17.R2).  Whatever update() (with its private helpers)
    can write is state of the iteration; a field that reset() leaves alone carries the previous iteration's progress into the next
    one: the frontier of round n+1 would be computed from round n's knowledge (a watermark forwarded before every replica reported,
    or withheld).  Decided: mod-set(update) is a subset of mod-set(reset), and every field whose constructed value is a constant
    holds that constant again when reset() returns."""
    from ..modset import mod_fields
    from ..opsum import initial_self_state
    from ..absint import Interp, Bound
    from ..facts import pkey
    facts = ctx.facts
    up = facts.method(WF, 'update')
    rs = facts.method(WF, 'reset')
    mu, mr = mod_fields(facts, up), mod_fields(facts, rs)
    adt = facts.adts[WF]
    names = [f['name'] for f in adt['variants'][0]['fields']]
    if '*' in mu:
        mu = set(names)
    ctx.inst('WatermarkFrontier|mod-sets', {'update writes': sorted(mu), 'reset writes': sorted(mr)})
    for n in sorted(mu):
        if '*' not in mr and n not in mr:
            ctx.viol('%s|reset-misses|%s' % (WF, n), rs.at, 'WatermarkFrontier::update can change `%s` but reset() does not restore it: what the previous '
                     'iteration learned (e.g. that every replica already reported) leaks into the next one, and the frontier of the new iteration is '
                     'no longer the minimum over all its replicas' % n, None)
    init, _ = initial_self_state(facts, WF, {})
    it = Interp(facts, rs, summaries={})
    try:
        g = it.explore(0, {})
    except Bound as e:
        raise Inconclusive(str(e))
    for i, fl in enumerate(adt['variants'][0]['fields']):
        key = pkey([1, '*', ['f', i, fl['name']]])
        ini = init.get(key)
        if ini is None or fl['name'] not in mu:
            continue
        vals = {repr(g.pre_term[n].get(key)) for n in g.return_nodes()}
        ctx.inst('reset|%s' % fl['name'], {'constructed': repr(ini), 'after reset': sorted(vals)})
        if any(g.pre_term[n].get(key) != ini for n in g.return_nodes()):
            ctx.viol('%s|reset-value|%s' % (WF, fl['name']), rs.at, 'after WatermarkFrontier::reset() the field `%s` is %s, not its constructed value %s'
                     % (fl['name'], sorted(vals), repr(ini)), None)


@rule('C20', 'R5', 'a failed timed receive in Start is always followed by the blocking receive that escalates a disconnected channel (the timeout latch is set unconditionally)')
def c20_r5(ctx):
    """recv_timeout()'s error is turned into FlushBatch without looking at its kind (C20.R2 exception).  That is fail-stop only because
    the error arm latches `already_timed_out = true` whatever the error was, which forces the next activation into the blocking recv()
    whose Disconnected error panics.  A latch that is conditional on the kind of error lets a replica whose upstream died spin on
    FlushBatch forever: nothing downstream of it ever fails or terminates."""
    c18_r3(ctx)
