"""Aggregation / window-content rules: C07.R2, C07.R3, C07.R4, C13.R3, C13.R4, C06.R1, C06.R5."""
from ..core import rule, Inconclusive
from ..facts import AnchorMissing, SE, is_local
from ..symex import render, strip
from ..pathcond import show_dnf
from .. import q
from .protocol import standard_operators, short, _exact

OP = 'renoir::operator::Operator'
FOLD = 'renoir::operator::fold::Fold'
KFOLD = 'renoir::operator::keyed_fold::KeyedFold'
WM = 'renoir::operator::window::WindowManager'
WOP = 'renoir::operator::window::WindowOperator'
TWM = 'renoir::operator::window::descr::transaction::TransactionWindowManager'
CWM = 'renoir::operator::window::descr::count::CountWindowManager'
WRES = 'renoir::operator::window::WindowResult'


@rule('C07', 'R2', 'one result per iteration: Fold emits exactly the accumulator it takes; KeyedFold results come only from accumulators.drain()')
def c07_r2(ctx):
    facts = ctx.facts
    nx = facts.method(FOLD, 'next', trait=OP)
    sym = q.sym(facts, nx)
    # every data return of Fold::next carries the value taken from self.accumulator
    n = 0
    for variant in ('Item', 'Timestamped'):
        for bi, s in q.aggregates(nx, SE, variant):
            if s['lhs'] != [0]:
                continue
            n += 1
            v = render(strip(sym.operand(s['rv']['o'][0])))
            ctx.inst('Fold::next|return %s' % variant, {'at': s['at'], 'payload': v})
            if 'take(&self.accumulator)' not in v:
                ctx.viol('%s|result-provenance|%s' % (nx.path, variant), s['at'],
                         'Fold::next returns `%s` as a result: it must be the accumulator taken out of self.accumulator (one result per '
                         'iteration, none for an empty input)' % v, None)
    if n == 0:
        ctx.viol('%s|no-result' % nx.path, nx.at, 'Fold::next never returns a data element', None)
    # the accumulator is (re)created only on a data edge
    for bi, si, f, s in q.self_writes(nx, 'accumulator'):
        dnf = q.op_cond_of_block(facts, nx, bi)
        ins = {a[2] for c in dnf for a in c if a[0] == 'is' and a[1] == '<input>'}
        ctx.inst('Fold::next|accumulator write', {'at': s['at'], 'inputs': sorted(ins)})
        if not ins <= {'Item', 'Timestamped'}:
            ctx.viol('%s|accumulator-created-on-control' % nx.path, s['at'],
                     'the fold accumulator is initialised on a %s edge: an empty iteration would emit a result' % sorted(ins), None)
    # KeyedFold: `ready` is filled from accumulators.drain() only
    kn = facts.method(KFOLD, 'next', trait=OP)
    ksym = q.sym(facts, kn)
    def sources(term):
        """rendered alternatives of a value: a multiply-assigned local is replaced by the values of its definitions (one level)"""
        t_ = strip(term)
        if t_ and t_[0] == 'phi':
            out = []
            for (db, ds) in kn.defs().get(t_[1], []):
                node = kn.def_node((db, ds))
                if ds != 'T':
                    out.append(render(strip(ksym.rvalue(node['rv']))))
                else:
                    out.append('%s(%s)' % (node['callee'].get('path'), ', '.join(render(strip(ksym.operand(a_))) for a_ in node['args'])))
            return out or [render(t_)]
        return [render(t_)]
    fills = []
    for bi, t in kn.calls():
        p_ = t['callee'].get('path') or ''
        if (p_ == 'std::iter::Extend::extend' or p_.rsplit('::', 1)[-1] in ('push', 'push_back', 'insert', 'append')) and t['args'] \
                and render(strip(ksym.operand(t['args'][0]))).endswith('self.ready') and len(t['args']) > 1:
            fills.append((bi, t, sources(ksym.operand(t['args'][1]))))
    ctx.inst('KeyedFold::next|ready', {'filled by': [(t['callee']['path'].rsplit('::', 1)[-1], src[:2]) for _, t, src in fills]})
    if not fills:
        ctx.viol('%s|results-source' % kn.path, kn.at, 'KeyedFold::next never fills its result list', None)
    for bi, t, src in fills:
        if not all('drain(&self.accumulators)' in x for x in src):
            ctx.viol('%s|results-source' % kn.path, t['at'],
                     'KeyedFold::next must fill its result list only from self.accumulators.drain() (one result per key per iteration); '
                     'found %s' % [x[:80] for x in src], None)
    # one accumulator per key: the map is indexed by the key half of the element, the fold gets the value half of the same element
    ent = [(t, render(strip(ksym.operand(t['args'][1])))) for bi, t in kn.calls()
           if (t['callee'].get('path') or '').endswith('::entry') and render(strip(ksym.operand(t['args'][0]))).endswith('self.accumulators')]
    ctx.inst('KeyedFold|entry', {'entry keys': [k[:100] for _, k in ent], 'helpers inlined': [x.rsplit('::', 1)[1] for x in getattr(kn, 'inlined_from', [])]})
    if not ent:
        raise AnchorMissing('KeyedFold::next (helpers inlined) never calls entry() on self.accumulators')
    for t, k in ent:
        kk = k.replace('Clone::clone(&', '').rstrip(')')
        if 'into_kv(' not in k or not kk.endswith('.0'):
            ctx.viol('%s|entry-key' % kn.path, t['at'],
                     'KeyedFold must look the accumulator up by the key half of the element (into_kv(..).0), found `%s`' % k[:100], None)


@rule('C07', 'R3', 'the timestamp of an aggregation result is the maximum input timestamp')
def c07_r3(ctx):
    facts = ctx.facts
    nx = facts.method(FOLD, 'next', trait=OP)
    sym = q.sym(facts, nx)
    for field in ('timestamp', 'max_watermark'):
        ws = [(bi, s) for bi, si, f, s in q.self_writes(nx, field)]
        vals = [render(strip(sym.rvalue(s['rv']))) for _, s in ws]
        ctx.inst('Fold::next|%s' % field, {'writes': vals})
        ok = any('Ord::max(' in v and 'unwrap_or(self.%s' % field in v for v in vals)
        if not ok:
            ctx.viol('%s|%s-not-max' % (nx.path, field), nx.at,
                     'Fold::next no longer keeps self.%s as max(previous, new) (writes: %s)' % (field, vals), None)
    # the stored timestamp is what the result carries
    for bi, s in q.aggregates(nx, SE, 'Timestamped'):
        if s['lhs'] == [0]:
            ts = render(strip(sym.operand(s['rv']['o'][1])))
            ctx.inst('Fold::next|result timestamp', {'stamp': ts})
            if 'self.timestamp' not in ts:
                ctx.viol('%s|stamp' % nx.path, s['at'], 'the fold result is stamped with `%s`, not with the stored maximum timestamp' % ts, None)
    kn = facts.method(KFOLD, 'next', trait=OP)
    fam = facts.family(kn)
    maxes = []
    for g in fam:
        s2 = q.sym(facts, g)
        for bi, t in g.calls():
            if (t['callee'].get('path') or '') == 'std::cmp::Ord::max':
                maxes.append(render(strip(('call', 'std::cmp::Ord::max', tuple(s2.operand(a) for a in t['args']), ''))))
    ctx.inst('KeyedFold::next|max', {'max calls': maxes})
    if not any('ts' in m or 'Timestamped' in m for m in maxes):
        ctx.viol('%s|timestamp-not-max' % kn.path, kn.at, 'KeyedFold no longer keeps the per-key timestamp as a maximum', None)
    mins = [t['at'] for g in fam + facts.family(nx) for bi, t in g.calls() if (t['callee'].get('path') or '') == 'std::cmp::Ord::min']
    if mins:
        ctx.viol('%s|min-used' % kn.path, mins[0], 'an aggregation timestamp is combined with Ord::min', None)


@rule('C07', 'R4', 'keyed rich_map state is indexed by the element\'s own key')
def c07_r4(ctx):
    facts = ctx.facts
    nx = facts.method('renoir::operator::rich_map::RichMap', 'next', trait=OP)
    fam = facts.family(nx)
    n = 0
    for g in fam:
        s2 = q.sym(facts, g)
        for bi, t in g.calls():
            p = t['callee'].get('path') or ''
            if p.endswith('::entry') or p.endswith('::get_mut') or p.endswith('::get'):
                recv = render(strip(s2.operand(t['args'][0])))
                if 'maps_fn' not in recv:
                    continue
                n += 1
                key = render(strip(s2.operand(t['args'][1])))
                ctx.inst('RichMap|state lookup', {'at': t['at'], 'key': key})
                if not (key.endswith('.0') or 'key' in key.lower()):
                    ctx.viol('%s|state-key' % nx.path, t['at'], 'RichMap looks its per-key state up by `%s`, not by the element\'s key' % key, None)
    if n == 0:
        raise AnchorMissing('RichMap::next: no lookup into maps_fn found')


@rule('C13', 'R3', 'window state is per key: WindowOperator keys managers by the element\'s key, sends control to every manager, drops recycled ones')
def c13_r3(ctx):
    facts = ctx.facts
    nx = facts.method(WOP, 'next', trait=OP)
    sym = q.sym(facts, nx)
    ent = [(bi, t) for bi, t in nx.calls() if (t['callee'].get('path') or '').endswith('::entry')]
    if not ent:
        raise AnchorMissing('WindowOperator::next does not call entry() on the manager map')
    for bi, t in ent:
        recv = render(strip(sym.operand(t['args'][0])))
        key = render(strip(sym.operand(t['args'][1])))
        ctx.inst('WindowOperator::next|entry', {'map': recv, 'key': key[:120]})
        if 'windows' not in recv or 'take_key' not in key:
            ctx.viol('%s|manager-key' % nx.path, t['at'],
                     'the window manager is looked up by `%s` instead of the key taken from the element: windows would mix keys' % key[:100], None)
    # results are stamped with the same key: add_key(key.clone()) in the extend closures
    fam = [nx] + facts.closures_of(nx)      # `extend(map(|e| .. add_key ..))` or a `for` loop pushing into the buffer
    addk = 0
    for g in fam:
        s2 = q.sym(facts, g)
        for bi, t in g.calls():
            if (t['callee'].get('path') or '').endswith('StreamElement::<Out>::add_key'):
                addk += 1
                k = render(strip(s2.operand(t['args'][1])))
                ctx.inst('WindowOperator|add_key|%d' % addk, {'key': k[:100]})
                import re as _re
                # the key of the manager that produced the result: the key parameter of the `retain` closure over the map
                # (control path) or the key taken out of the element (data path)
                if not (_re.match(r'^\^?arg\d+$', k.replace('Clone::clone(&', '').rstrip(')').lstrip('&*')) or 'take_key' in k):
                    ctx.viol('%s|result-key' % nx.path, t['at'], 'a window result is tagged with `%s` instead of its window\'s key' % k[:80], None)
    if addk < 2:
        ctx.viol('%s|result-key-missing' % nx.path, nx.at, 'window results are not re-keyed (add_key) on both the data and the control path', None)
    # control elements go to every manager through retain, whose closure returns !recycle()
    ret = [(bi, t) for bi, t in nx.calls() if (t['callee'].get('path') or '').endswith('::retain')]
    ctx.inst('WindowOperator::next|retain', {'retain calls': [t['at'] for _, t in ret]})
    if not ret:
        ctx.viol('%s|control-not-broadcast' % nx.path, nx.at, 'control elements are not delivered to every window manager (retain over the map)', None)
    okrec = False
    for g in fam:
        s2 = q.sym(facts, g)
        for blk in g.blocks:
            for s in blk['s']:
                if s['k'] == 'assign' and s['lhs'] == [0] and g.locals[0]['ty'] == 'bool':
                    d = render(strip(s2.rvalue(s['rv'])))
                    if d.startswith('Not(') and 'recycle' in d:
                        okrec = True
    if not okrec:
        ctx.viol('%s|recycle' % nx.path, nx.at, 'the retain closure no longer keeps a manager iff !recycle(): finished managers would be kept (state leak) or live ones dropped', None)


@rule('C13', 'R4', 'transaction windows commit exactly as the user logic dictates (Commit / CommitAfter / Discard / Continue arms)')
def c13_r4(ctx):
    facts = ctx.facts
    pr = facts.method(TWM, 'process', trait=WM)
    sym = q.sym(facts, pr)
    # effects per TransactionOp arm: conditions that mention the op variant
    rets = [(bi, s) for bi, s in q.aggregates(pr, 'std::option::Option', 'Some') if s['lhs'] == [0]]
    table = {}
    for bi, s in rets:
        dnf = q.cond_of_block(facts, pr, bi)
        for c in dnf:
            ops = [a[2] for a in c if a[0] == 'is' and 'Fn::call' in a[1]]
            el = [a[2] for a in c if a[0] == 'is' and a[1] == 'arg2']
            table.setdefault('return', []).append((tuple(ops), tuple(el), tuple(sorted(show_dnf([frozenset(x for x in c if x[0] == 'cmp')])))))
    ctx.inst('Transaction::process|returns', {'return conditions': [str(x) for x in table.get('return', [])][:6]})
    ops_returning = {o for ops, el, cm in table.get('return', []) for o in ops}
    if 'Commit' not in ops_returning:
        ctx.viol('%s|commit' % pr.path, pr.at, 'TransactionOp::Commit no longer emits the current window', None)
    for bad in ('Discard', 'Continue', 'CommitAfter'):
        if bad in ops_returning:
            ctx.viol('%s|%s-emits' % (pr.path, bad), pr.at, 'TransactionOp::%s emits a window result' % bad, None)
    # Discard clears the slot, CommitAfter stores the deadline
    ws = []
    for bi, blk in enumerate(pr.blocks):
        if blk['cleanup']:
            continue
        for s in blk['s']:
            if s['k'] == 'assign' and not is_local(s['lhs']):
                names = [e[2] for e in s['lhs'][1:] if isinstance(e, list) and e[0] == 'f']
                if names and names[-1] in ('w', 'close'):
                    dnf = q.cond_of_block(facts, pr, bi)
                    ops = sorted({a[2] for c in dnf for a in c if a[0] == 'is' and 'Fn::call' in a[1]})
                    ws.append((names[-1], render(strip(sym.rvalue(s['rv'])))[:60], ops, s['at']))
    ctx.inst('Transaction::process|slot writes', {'writes': [(n, v, o) for n, v, o, _ in ws]})
    if not any(n == 'w' and 'None' in v and o == ['Discard'] for n, v, o, _ in ws):
        ctx.viol('%s|discard' % pr.path, pr.at, 'TransactionOp::Discard no longer drops the open window', None)
    if not any(n == 'close' and o == ['CommitAfter'] for n, v, o, _ in ws):
        ctx.viol('%s|commit-after' % pr.path, pr.at, 'TransactionOp::CommitAfter no longer records the commit deadline', None)
    # watermark edge: commit iff close < w
    okwm = False
    for bi, s_ in rets:
        for c in q.cond_of_block(facts, pr, bi):
            if not any(a[0] == 'is' and a[2] == 'Watermark' for a in c):
                continue
            for a in c:
                if a[0] == 'cmp' and 'self.w' in (a[1] + a[2]) and 'Watermark' in (a[1] + a[2]):
                    slot_first = 'self.w' in a[1]
                    rel = a[3] if slot_first else frozenset({'<': '>', '>': '<', '=': '='}[r] for r in a[3])
                    ctx.inst('Transaction::process|deadline', {'commit on watermark iff close {%s} w' % ''.join(sorted(rel)): True})
                    if rel == frozenset(['<']):
                        okwm = True
    if not okwm:
        ctx.viol('%s|deadline' % pr.path, pr.at, 'a window with CommitAfter(t) is not committed exactly by the first watermark beyond t (close < w)', None)


@rule('C06', 'R1', 'watermark provenance: every emitted Watermark derives from a received watermark, the frontier, or the user generator')
def c06_r1(ctx):
    facts = ctx.facts
    n = 0
    for f in facts.lib_fns():
        if f.file.startswith('src/network/tokio') or f.file.startswith('src/test') or not f.file.startswith('src/operator'):
            continue
        sym = None
        for bi, s in q.aggregates(f, SE, 'Watermark'):
            sym = sym or q.sym(facts, f)
            v = render(strip(sym.operand(s['rv']['o'][0])))
            n += 1
            ok = any(x in v for x in ('as Watermark)', 'watermark', 'Watermark', 'WatermarkFrontier::update', 'frontier', 'front'))
            if (f.impl_adt or '').endswith('StreamElement') or f.name in ('map', 'take', 'add_key', 'take_key', 'clone'):
                ok = True   # variant preserving helpers of StreamElement itself
            ctx.inst('%s|Watermark|%d' % (f.path, n), {'function': f.path, 'at': s['at'], 'payload': v[:160]})
            if not ok or 'Timestamped)' in v:
                ctx.viol('%s|watermark-provenance' % f.path, s['at'],
                         '%s emits Watermark(%s): a watermark must derive from a received watermark / the frontier / the user generator, '
                         'never from an element timestamp or a constant' % (f.path, v[:120]), None)
    if n < 8:
        raise Inconclusive('fewer than 8 Watermark constructions found (%d)' % n)


@rule('C06', 'R5', 'window managers that emit stored-stamped results at the end of an iteration also release them on the watermark that covers them')
def c06_r5(ctx):
    facts = ctx.facts
    ps = facts.impl_methods(WM, 'process')
    if len(ps) < 3:
        raise AnchorMissing('fewer than 3 WindowManager::process impls')
    for f in sorted(ps, key=lambda x: x.path):
        fam = facts.family(f)
        # timestamped results built on the FlushAndRestart/Terminate edge
        stamped_end = []
        for g in fam:
            s2 = q.sym(facts, g)
            for bi, s in q.aggregates(g, WRES, 'Timestamped'):
                stamped_end.append((g, bi, s['at'], render(strip(s2.operand(s['rv']['o'][1])))))
            for bi, t in g.calls():
                if (t['callee'].get('path') or '').endswith('WindowResult::<T>::new'):
                    stamped_end.append((g, bi, t['at'], render(strip(s2.operand(t['args'][1])))))
        # which of them are reachable on the end edge of `process`
        def edges_of(g, bi):
            root = f if g is f else f
            if g is f:
                dnf = q.cond_of_block(facts, f, bi)
            else:
                # closure: conditions of the call that receives it in the parent
                cb = [b for b, t in f.calls() if g.path in (t['callee'].get('gclosures') or [])]
                dnf = set()
                for b in cb:
                    dnf |= set(q.cond_of_block(facts, f, b))
            vs = set()
            for c in dnf:
                for a in c:
                    if a[0] == 'is' and a[2] in ('FlushAndRestart', 'Terminate', 'Watermark', 'Item', 'Timestamped'):
                        vs.add(a[2])
                    if a[0] == 'isin':
                        vs |= set(a[2])
            return vs
        end_stamped = [(at, st) for g, bi, at, st in stamped_end if edges_of(g, bi) & {'FlushAndRestart', 'Terminate'}]
        wm_release = [(at, st) for g, bi, at, st in stamped_end if 'Watermark' in edges_of(g, bi)]
        ctx.inst(short(f), {'manager': f.path, 'stamped results at the end of the iteration': end_stamped, 'stamped results on the watermark edge': wm_release},
                 nontrivial=bool(stamped_end))
        if end_stamped and not wm_release:
            ctx.viol('%s|stale-stamp-at-end' % f.impl_adt, end_stamped[0][0],
                     '%s emits a result stamped with the stored value `%s` at the end of an iteration but never releases on the Watermark '
                     'edge: watermarks beyond that stamp have already been forwarded, so the result violates the watermark contract'
                     % (short(f), end_stamped[0][1]), None)


BUILTIN_COMBINERS = ('group_by_sum', 'group_by_avg', 'group_by_count', 'group_by_min_element', 'group_by_max_element',
                     'group_by_reduce', 'reduce', 'reduce_assoc', 'collect_count', 'max', 'max_by_key', 'max_by', 'min',
                     'min_by_key', 'min_by', 'sum')


def _has_arg(term, n):
    if isinstance(term, tuple):
        if len(term) >= 2 and term[0] == 'arg' and term[1] == n:
            return True
        return any(_has_arg(x, n) for x in term)
    return False


@rule('C07', 'R6', 'built-in combiners fold into their accumulator: every write to an accumulator component reads that accumulator or is guarded by a test of it')
def c07_r6(ctx):
    """sum / count / avg / min / max / reduce are `acc = g(acc, x)`. A write `acc.c = v` where v does not mention acc and whose path
    condition does not look at acc forgets every earlier element (or partial): the result is not the fold of the input. The rule is
    a data-dependence check, not an evaluation: it does not decide that g is the right function."""
    facts = ctx.facts
    n = 0
    for g in facts.lib_fns():
        if g.kind != 'closure' or g.argc < 3 or len(g.locals) < 3 or not g.locals[2]['ty'].startswith('&mut'):
            continue
        par = (g.parent or '').rsplit('::', 1)[-1]
        root = (g.root or '').rsplit('::', 1)[-1]
        if par not in BUILTIN_COMBINERS and root not in BUILTIN_COMBINERS:
            continue
        if '::stream::' not in g.path:
            continue
        n += 1
        s2 = q.sym(facts, g)
        accname = render(strip(s2.operand(['c', [2]])))
        writes = []
        for bi, blk in enumerate(g.blocks):
            for st in blk['s']:
                if st['k'] != 'assign':
                    continue
                try:
                    pl = s2.place(st['lhs'])
                except Exception:
                    continue
                if not _has_arg(pl, 2) or (len(st['lhs']) == 1):
                    continue
                writes.append((bi, st, pl, s2.rvalue(st['rv'])))
        inplace = [t for _, t in g.calls() if t['args'] and _has_arg(s2.operand(t['args'][0]), 2)
                   and (t['callee'].get('path') or '').rsplit('::', 1)[-1] in ('add_assign', 'sub_assign', 'mul_assign', 'extend', 'push', 'insert')]
        ctx.inst('%s' % g.path.replace('renoir::operator::', ''), {'accumulator': g.locals[2]['ty'][:60],
                 'writes': [(render(strip(pl)), render(strip(rv))[:60]) for _, _, pl, rv in writes], 'in-place updates': len(inplace)})
        if not writes and not inplace:
            ctx.viol('%s|no-accumulation' % g.path, g.at, 'the combiner never updates its accumulator', None)
        for bi, st, pl, rv in writes:
            if _has_arg(rv, 2):
                continue
            # phi values: look through the definitions that merge into the written value
            dnf = q.cond_of_block(facts, g, bi)
            if not dnf:
                continue     # only reachable through an unwind edge (drop-and-replace cleanup copy of the same assignment)
            guarded = all(any(accname in (str(a[1]) + str(a[2] if len(a) > 2 else '')) for a in c) for c in dnf)
            if guarded:
                continue
            ctx.viol('%s|accumulator-overwritten|%s' % (g.path, render(strip(pl))), st['at'],
                     '`%s = %s` in the built-in combiner of %s overwrites the accumulator with a value that does not depend on it, on a path '
                     'that never looked at it (conditions: %s): everything folded so far is forgotten'
                     % (render(strip(pl)), render(strip(rv))[:60], par if par in BUILTIN_COMBINERS else root, show_dnf(dnf)), None)
    if n == 0:
        raise AnchorMissing('no built-in combiner closure found')
