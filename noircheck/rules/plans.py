"""E2 plan-shape rules: C01.R1, C07.R1, C08.R1, C09.R1/R3/R4/R5, C03.R3, C10.R6, C11.R1, C19.R6."""
from ..core import rule, Inconclusive
from ..facts import AnchorMissing, SE, is_local
from ..symex import render, strip, Sym
from ..pathcond import show_dnf
from .. import q, plan


def names(es):
    out = []
    for e in es:
        k = e['kind']
        if k == 'op':
            out.append('op:' + e['op'].split('::')[-1])
        elif k == 'split':
            out.append('split:' + e['strategy'][0])
        elif k == 'binary':
            out.append('binary:%s,%s' % (e['s1'][0], e['s2'][0]))
        elif k == 'repl':
            out.append('repl:' + ':'.join(e['repl']))
        else:
            out.append(k)
    return out


def boundaries(ns):
    return [i for i, n in enumerate(ns) if n.startswith('split:') or n.startswith('binary:')]


class Spec:
    """constraints over an effect sequence; each check returns None or a message"""

    def __init__(self, why, seq=None, nbound=None, funnel=None, no_boundary=False, finalize=None, every_boundary=None,
                 funnel_repl='const:One'):
        self.why = why
        self.seq = seq or []
        self.nbound = nbound
        self.funnel = funnel            # op name that must sit in a block restricted to one replica
        self.funnel_repl = funnel_repl
        self.no_boundary = no_boundary
        self.finalize = finalize
        self.every_boundary = every_boundary

    def check(self, ns):
        # ordered subsequence
        i = 0
        for want in self.seq:
            while i < len(ns) and not match(ns[i], want):
                i += 1
            if i == len(ns):
                return 'the effect sequence %s does not contain %s in this order' % (ns, self.seq)
            i += 1
        b = boundaries(ns)
        if self.no_boundary and b:
            return 'an element-wise combinator creates a block boundary (%s)' % [ns[x] for x in b]
        if self.nbound is not None and len(b) != self.nbound:
            return 'expected %d block boundaries, found %d (%s)' % (self.nbound, len(b), [ns[x] for x in b])
        if self.funnel:
            ops = [i for i, n in enumerate(ns) if match(n, self.funnel)]
            if not ops:
                return 'operator %s is missing' % self.funnel
            for oi in ([ops[-1]] if self.funnel.endswith('$last') else ops[-1:]):
                prev_b = [x for x in b if x < oi]
                if not prev_b:
                    return '%s is not preceded by a block boundary' % self.funnel
                pb = prev_b[-1]
                between = ns[pb + 1:oi]
                if ('repl:' + self.funnel_repl) not in between:
                    return ('%s runs in a block whose replication is not restricted to %s after the boundary %s (effects in between: %s)'
                            % (self.funnel, self.funnel_repl, ns[pb], between))
        if self.finalize is True and 'finalize' not in ns:
            return 'the sink block is never finalised'
        if self.every_boundary:
            for x in b:
                if not match(ns[x], self.every_boundary):
                    return 'boundary %s does not match %s' % (ns[x], self.every_boundary)
        return None


def match(n, want):
    want = want.replace('$last', '')
    if want.endswith('*'):
        return n.startswith(want[:-1])
    return n == want


ELEMENTWISE = {
    'Stream::map': 'op:Map', 'Stream::filter': 'op:Filter', 'Stream::filter_map': 'op:FilterMap', 'Stream::flat_map': 'op:FlatMap',
    'Stream::flatten': 'op:Flatten', 'Stream::inspect': 'op:Inspect', 'Stream::key_by': 'op:KeyBy', 'Stream::rich_map': 'op:RichMap',
    'Stream::rich_flat_map': 'op:RichMap', 'Stream::rich_filter_map': 'op:RichMap', 'Stream::reorder': 'op:Reorder',
    'Stream::map_memo': 'op:MapMemo', 'Stream::map_memo_by': 'op:MapMemo', 'Stream::add_timestamps': 'op:AddTimestamp',
    'Stream::drop_timestamps': 'op:DropTimestamp', 'Stream::rich_map_custom': 'op:RichMapCustom',
    'KeyedStream::map': 'op:Map', 'KeyedStream::filter': 'op:Filter', 'KeyedStream::filter_map': 'op:Filter', 'KeyedStream::flat_map': 'op:KeyedFlatMap',
    'KeyedStream::flatten': 'op:KeyedFlatten', 'KeyedStream::inspect': 'op:Inspect', 'KeyedStream::rich_map': 'op:RichMap',
    'KeyedStream::rich_flat_map': 'op:RichMap', 'KeyedStream::rich_filter_map': 'op:RichMap', 'KeyedStream::reorder': 'op:Reorder',
    'KeyedStream::fold': 'op:KeyedFold', 'KeyedStream::reduce': 'op:KeyedFold', 'KeyedStream::drop_key': 'op:Map',
    'KeyedStream::add_timestamps': 'op:AddTimestamp', 'KeyedStream::drop_timestamps': 'op:DropTimestamp',
    'KeyedStream::rich_map_custom': 'op:RichMapCustom',
}
SPECS = {
    'Stream::shuffle': Spec('one boundary with a random replica per element', seq=['split:Random'], nbound=1),
    'KeyedStream::shuffle': Spec('one boundary with a random replica per element', seq=['split:Random'], nbound=1),
    'Stream::broadcast': Spec('one boundary delivering to every replica', seq=['split:All'], nbound=1),
    'Stream::group_by': Spec('shuffle by the hash of the key, then key the stream with the same keyer', seq=['split:GroupBy', 'op:KeyBy'], nbound=1),
    'Stream::fold': Spec('a global fold sees every element only on a single replica', seq=['split:OnlyOne', 'op:Fold'], nbound=1, funnel='op:Fold'),
    'Stream::reduce': Spec('a global reduce sees every element only on a single replica', seq=['split:OnlyOne', 'op:Fold', 'op:Map'], nbound=1, funnel='op:Fold'),
    'Stream::fold_assoc': Spec('local pre-aggregation, then a single global replica', seq=['op:Fold', 'split:OnlyOne', 'op:Fold'], nbound=1, funnel='op:Fold$last'),
    'Stream::reduce_assoc': Spec('local pre-aggregation, then a single global replica', seq=['op:Fold', 'split:OnlyOne', 'op:Fold', 'op:Map'], nbound=1, funnel='op:Fold$last'),
    'Stream::collect_vec': Spec('a sink that returns the whole stream runs on one replica', seq=['split:OnlyOne', 'op:CollectVecSink'], nbound=1, funnel='op:CollectVecSink', finalize=True),
    'Stream::collect': Spec('a sink that returns the whole stream runs on one replica', seq=['split:OnlyOne', 'op:Collect'], nbound=1, funnel='op:Collect', finalize=True),
    'Stream::collect_channel': Spec('a sink that returns the whole stream runs on one replica', seq=['split:OnlyOne', 'op:CollectChannelSink'], nbound=1, funnel='op:CollectChannelSink', finalize=True),
    'Stream::collect_count': Spec('local counts, then a single summing replica', seq=['op:Fold', 'split:OnlyOne', 'op:CollectCountSink'], nbound=1, funnel='op:CollectCountSink', finalize=True),
    'KeyedStream::collect_vec': Spec('a sink that returns the whole stream runs on one replica', seq=['split:OnlyOne', 'op:CollectVecSink'], nbound=1, funnel='op:CollectVecSink', finalize=True),
    'KeyedStream::collect': Spec('a sink that returns the whole stream runs on one replica', seq=['split:OnlyOne', 'op:Collect'], nbound=1, funnel='op:Collect', finalize=True),
    'KeyedStream::collect_channel': Spec('a sink that returns the whole stream runs on one replica', seq=['split:OnlyOne', 'op:CollectChannelSink'], nbound=1, funnel='op:CollectChannelSink', finalize=True),
    'Stream::collect_vec_all': Spec('every host gets the whole stream', seq=['split:All', 'op:CollectVecSink'], nbound=1, funnel='op:CollectVecSink', funnel_repl='const:Host', finalize=True),
    'Stream::collect_all': Spec('every host gets the whole stream', seq=['split:All', 'op:Collect'], nbound=1, funnel='op:Collect', funnel_repl='const:Host', finalize=True),
    'KeyedStream::collect_vec_all': Spec('every host gets the whole stream', seq=['split:All', 'op:CollectVecSink'], nbound=1, funnel='op:CollectVecSink', funnel_repl='const:Host', finalize=True),
    'KeyedStream::collect_all': Spec('every host gets the whole stream', seq=['split:All', 'op:Collect'], nbound=1, funnel='op:Collect', funnel_repl='const:Host', finalize=True),
    'Stream::for_each': Spec('a per-replica sink', seq=['op:ForEach'], no_boundary=True, finalize=True),
    'KeyedStream::for_each': Spec('a per-replica sink', seq=['op:ForEach'], no_boundary=True, finalize=True),
    'Stream::zip': Spec('positional pairing needs both inputs forwarded one-to-one to a single pairing replica', seq=['binary:OnlyOne,OnlyOne', 'repl:const:One'], nbound=1),
    'Stream::merge': Spec('union of two streams, forwarded replica by replica', seq=['binary:OnlyOne,OnlyOne', 'op:FilterMap'], nbound=1),
    'KeyedStream::merge': Spec('union of two co-partitioned keyed streams', seq=['binary:OnlyOne,OnlyOne', 'op:FilterMap'], nbound=1),
    'Stream::interval_join': Spec('both inputs are funnelled to one replica, merged, reordered and joined',
                                  seq=['split:OnlyOne', 'repl:const:One', 'split:OnlyOne', 'repl:const:One', 'binary:OnlyOne,OnlyOne', 'op:Reorder', 'op:IntervalJoin'], nbound=3),
    'KeyedStream::interval_join': Spec('co-partitioned inputs merged, reordered and joined per key', seq=['binary:OnlyOne,OnlyOne', 'op:Reorder', 'op:IntervalJoin'], nbound=1),
    'Stream::window_all': Spec('a window over the whole stream runs on one replica', seq=['split:OnlyOne', 'op:KeyBy'], nbound=1),
    'Stream::split': Spec('one forward boundary whose block is cloned per branch', seq=['split:OnlyOne', 'set_scheduling', 'clone_block'], nbound=1),
    'JoinStream::ship_hash': Spec('both join inputs are shuffled by the hash of their key', seq=['binary:GroupBy,GroupBy'], nbound=1),
    'JoinStream::ship_broadcast_right': Spec('left forwarded, right broadcast to every replica', seq=['binary:OnlyOne,All'], nbound=1),
    'Stream::join': Spec('hash-partitioned inner join', seq=['binary:GroupBy,GroupBy', 'op:JoinLocalHash'], nbound=1),
    'Stream::left_join': Spec('hash-partitioned left join', seq=['binary:GroupBy,GroupBy', 'op:JoinLocalHash'], nbound=1),
    'Stream::outer_join': Spec('hash-partitioned outer join', seq=['binary:GroupBy,GroupBy', 'op:JoinLocalHash'], nbound=1),
    'KeyedStream::join': Spec('co-partitioned keyed inner join', seq=['binary:OnlyOne,OnlyOne', 'op:JoinKeyedInner'], nbound=1),
    'KeyedStream::join_outer': Spec('co-partitioned keyed outer join', seq=['binary:OnlyOne,OnlyOne', 'op:JoinKeyedOuter'], nbound=1),
}
for _n in ('group_by_fold', 'group_by_count'):
    SPECS['Stream::' + _n] = Spec('local keyed pre-aggregation, shuffle by key hash, global keyed aggregation',
                                  seq=['op:KeyBy', 'op:KeyedFold', 'split:GroupBy', 'op:KeyedFold'], nbound=1)
for _n in ('group_by_reduce', 'group_by_sum', 'group_by_avg', 'group_by_min_element', 'group_by_max_element'):
    SPECS['Stream::' + _n] = Spec('local keyed pre-aggregation, shuffle by key hash, global keyed aggregation, unwrap',
                                  seq=['op:KeyBy', 'op:KeyedFold', 'split:GroupBy', 'op:KeyedFold', 'op:Map'], nbound=1)
for _n, _op in ELEMENTWISE.items():
    SPECS[_n] = Spec('element-wise combinators stay inside the block', seq=[_op], no_boundary=True)

AGG = {'Stream::fold', 'Stream::reduce', 'Stream::fold_assoc', 'Stream::reduce_assoc', 'Stream::group_by_fold', 'Stream::group_by_count',
       'Stream::group_by_reduce', 'Stream::group_by_sum', 'Stream::group_by_avg', 'Stream::group_by_min_element', 'Stream::group_by_max_element',
       'KeyedStream::fold', 'KeyedStream::reduce', 'Stream::collect_count', 'KeyedStream::rich_map'}
JOIN = {'JoinStream::ship_hash', 'JoinStream::ship_broadcast_right', 'Stream::join', 'Stream::left_join', 'Stream::outer_join', 'KeyedStream::join',
        'KeyedStream::join_outer', 'Stream::interval_join', 'KeyedStream::interval_join'}
FAN = {'Stream::split', 'Stream::merge', 'KeyedStream::merge', 'Stream::zip', 'Stream::broadcast'}


def qualified(f):
    return '%s::%s' % (f.impl_adt.split('::')[-1], f.name)


def all_plans(facts):
    out = {}
    for f in facts.lib_fns():
        if f.kind == 'assoc' and f.is_pub and plan.is_combinator(facts, f):
            es = plan.effects(facts, f)
            out.setdefault(qualified(f), []).append((f, es))
    return out


def check_specs(ctx, subset=None):
    facts = ctx.facts
    plans = all_plans(facts)
    if len(plans) < 80:
        raise AnchorMissing('fewer than 80 public combinators found (%d)' % len(plans))
    n = 0
    for name, spec in sorted(SPECS.items()):
        if subset is not None and name not in subset:
            continue
        if name not in plans:
            ctx.viol('%s|missing' % name, '-', 'public combinator %s no longer exists (rename: update the plan table)' % name, None)
            continue
        for f, es in plans[name]:
            ns = names(es)
            n += 1
            ctx.inst('%s|%s' % (name, f.at), {'combinator': f.path, 'effects': ns, 'requirement': spec.why})
            msg = spec.check(ns)
            if msg:
                ctx.viol('%s|plan' % name, f.at, '%s builds the wrong job graph (%s): %s' % (name, spec.why, msg), {'effects': ns})
    if subset is None:
        uncl = sorted(k for k in plans if k not in SPECS and any(e['kind'] in ('split', 'binary', 'op') for _, es in plans[k] for e in es))
        if uncl:
            ctx.note('combinators without a row in the plan table (not checked): %s' % ', '.join(uncl))
    return n


@rule('C01', 'R1', 'plan table: every public combinator builds the block graph its sequential meaning needs')
def c01_r1(ctx):
    check_specs(ctx)


@rule('C07', 'R1', 'aggregation plan shapes: global folds behind a one-replica funnel; two-phase forms = local, shuffle by key, global')
def c07_r1(ctx):
    check_specs(ctx, AGG)
    agg_details(ctx)


@rule('C08', 'R1', 'join shipping: hash/hash, forward/broadcast, forward/forward for keyed joins')
def c08_r1(ctx):
    check_specs(ctx, JOIN)


@rule('C09', 'R1', 'fan-out/fan-in plan shapes: split, merge, zip, broadcast')
def c09_r1(ctx):
    check_specs(ctx, FAN)
    facts = ctx.facts
    # clone_block reconnects *all* predecessors of the cloned block
    cb = facts.one(r'StreamContextInner::clone_block$')
    sym = q.sym(facts, cb)
    conn = [(bi, t) for bi, t in cb.calls() if (t['callee'].get('path') or '').endswith('Scheduler::connect_blocks')]
    prevs = [(bi, t) for bi, t in cb.calls() if (t['callee'].get('path') or '').endswith('Scheduler::prev_blocks')]
    ctx.inst('clone_block|reconnect', {'prev_blocks calls': [t['at'] for _, t in prevs], 'connect_blocks calls': [t['at'] for _, t in conn]})
    if not conn or not prevs:
        ctx.viol('%s|no-reconnect' % cb.path, cb.at, 'clone_block does not reconnect the clone to the predecessors of the original block', None)
    for bi, t in conn:
        if not any(bi in cb.reachable_from(s) for s in cb.succ(bi)):
            ctx.viol('%s|single-predecessor' % cb.path, t['at'],
                     'clone_block connects only one predecessor (connect_blocks is not in a loop over prev_blocks): a cloned block '
                     'fed by two inputs would miss one of them', None)
        dnf = q.cond_of_block(facts, cb, bi)
        extra = [a for c in dnf for a in c if not (a[0] == 'is' and 'Iterator::next' in a[1])]
        if extra:
            ctx.viol('%s|conditional-reconnect' % cb.path, t['at'], 'clone_block reconnects a predecessor only under %s' % show_dnf([frozenset(extra)]), None)


def closure_calls_hash_of_field0(facts, cdef):
    g = facts.fn(cdef, required=False)
    if g is None:
        return None
    sym = Sym(g, facts=facts)
    for bi, t in g.calls():
        if (t['callee'].get('path') or '').endswith('block::group_by_hash'):
            return render(strip(sym.operand(t['args'][0])))
    return None


def agg_details(ctx):
    """same init / key agreement between the two phases"""
    facts = ctx.facts
    plans = all_plans(facts)
    for f, es in plans.get('Stream::group_by_fold', []):
        sp = [e for e in es if e['kind'] == 'split']
        if sp and sp[0]['strategy'][0] == 'GroupBy' and sp[0]['strategy'][1] == 'closure':
            arg = closure_calls_hash_of_field0(facts, sp[0]['strategy'][2])
            ctx.inst('group_by_fold|routing-key', {'routing closure hashes': arg})
            if arg is None or not (arg.endswith('.0') or '.0' in arg):
                ctx.viol('Stream::group_by_fold|routing-key', f.at,
                         'group_by_fold routes the locally aggregated pairs by `%s`, not by group_by_hash of the key (field 0): partial '
                         'aggregates of one key would end on different replicas' % arg, None)
        kf = [e for e in es if e['kind'] == 'op' and e['op'].endswith('KeyedFold')]
        inits = [e['args'][1] if len(e.get('args', [])) > 1 else None for e in kf]
        ctx.inst('group_by_fold|init', {'init of local / global phase': inits})
        if len(kf) == 2 and (inits[0] is None or strip_clone(inits[0]) != strip_clone(inits[1])):
            ctx.viol('Stream::group_by_fold|init', f.at, 'the local and the global phase start from different initial values (%s vs %s)' % tuple(inits), None)
    for f, es in plans.get('Stream::fold_assoc', []):
        fo = [e for e in es if e['kind'] == 'op' and e['op'].endswith('::Fold')]
        inits = [e['args'][1] if len(e.get('args', [])) > 1 else None for e in fo]
        ctx.inst('fold_assoc|init', {'init of local / global phase': inits})
        if len(fo) == 2 and (inits[0] is None or strip_clone(inits[0]) != strip_clone(inits[1])):
            ctx.viol('Stream::fold_assoc|init', f.at, 'the local and the global phase start from different initial values (%s vs %s)' % tuple(inits), None)


def strip_clone(s):
    if s is None:
        return None
    return s.replace('Clone::clone(&', '').replace('Clone::clone(', '').rstrip(')').strip('&*')


@rule('C03', 'R3', 'key agreement: routing keyer == keying keyer; one fixed-seed hasher for group_by, group_by_fold and both join sides')
def c03_r3(ctx):
    facts = ctx.facts
    plans = all_plans(facts)
    # (a) group_by: strategy keyer and KeyBy keyer are the same parameter
    for f, es in plans.get('Stream::group_by', []):
        sp = [e for e in es if e['kind'] == 'split']
        kb = [e for e in es if e['kind'] == 'op' and e['op'].endswith('KeyBy')]
        sk = strip_clone(sp[0]['strategy'][2]) if sp and len(sp[0]['strategy']) > 2 else None
        kk = strip_clone(kb[0]['args'][1]) if kb and len(kb[0].get('args', [])) > 1 else None
        ctx.inst('group_by|keyers', {'routing keyer': sk, 'KeyBy keyer': kk})
        if sk is None or kk is None or sk.replace('^', '') != kk.replace('^', ''):
            ctx.viol('Stream::group_by|keyer-mismatch', f.at,
                     'group_by routes by `%s` but keys the stream by `%s`: elements of one key would be spread over replicas' % (sk, kk), None)
    agg_details(ctx)
    # (b) NextStrategy::group_by hashes keyer(item) with group_by_hash
    gb = facts.one(r'NextStrategy::<Out>::group_by$')
    ok = False
    for g in facts.closures_of(gb):
        s2 = Sym(g, facts=facts)
        for bi, t in g.calls():
            if (t['callee'].get('path') or '').endswith('block::group_by_hash'):
                a = render(strip(s2.operand(t['args'][0])))
                ctx.inst('NextStrategy::group_by|hash', {'hashes': a})
                # group_by_hash(&keyer(item)): the captured keyer (closure capture, rendered through the parent: the
                # strategy constructor's only function parameter) applied to the closure's own element parameter
                if ('Fn::call(' in a or 'call(' in a) and 'arg2' in a and ('arg1' in a or 'keyer' in a):
                    ok = True
    if not ok:
        ctx.viol('%s|hash' % gb.path, gb.at, 'NextStrategy::group_by no longer routes by group_by_hash(keyer(item))', None)
    # (c) group_by_hash: fixed seed, no other hasher
    gh = facts.one(r'^renoir::block::group_by_hash$')
    sym = q.sym(facts, gh)
    seeds = [(t['at'], t['args'][0]) for bi, t in gh.calls() if 'with_seed' in (t['callee'].get('path') or '')]
    ctx.inst('group_by_hash|seed', {'with_seed calls': [(a, o[1] if o[0] == 'k' else 'NOT CONSTANT') for a, o in seeds]})
    if len(seeds) != 1 or seeds[0][1][0] != 'k':
        ctx.viol('%s|seed' % gh.path, gh.at,
                 'group_by_hash must build its hasher from a compile-time constant seed: with a per-process seed equal keys would be '
                 'routed to different replicas by different producers/hosts', None)
    bad = [t for bi, t in gh.calls() if any(x in (t['callee'].get('path') or '') for x in ('RandomState', 'SystemTime', 'Instant', 'thread_rng', 'tls_rng'))]
    if bad:
        ctx.viol('%s|random' % gh.path, bad[0]['at'], 'group_by_hash uses a non-deterministic source', None)
    # (d) joins: both sides through NextStrategy::group_by with keyer1 / keyer2
    sh = facts.one(r'JoinStreamShipHash::<Key, Out1, Out2, Keyer1, Keyer2>::new$')
    s3 = q.sym(facts, sh)
    gbs = [render(strip(s3.operand(t['args'][0]))) for bi, t in sh.calls() if (t['callee'].get('path') or '').endswith('NextStrategy::<Out>::group_by')]
    ctx.inst('JoinStreamShipHash::new|keyers', {'group_by keyers': gbs})
    if len(gbs) != 2 or not ('keyer1' in gbs[0] and 'keyer2' in gbs[1]):
        ctx.viol('%s|join-keyers' % sh.path, sh.at, 'the two join inputs are not routed by group_by(keyer1) / group_by(keyer2): %s' % gbs, None)


@rule('C19', 'R6', 'forward links need matching replication: an OnlyOne boundary copies the producer scheduling or restricts the consumer to the constant One')
def c19_r6(ctx):
    forward_links(ctx)


@rule('C01', 'R3', 'no public combinator creates a forward (OnlyOne) link towards a block with an arbitrary caller-chosen replication')
def c01_r3(ctx):
    forward_links(ctx)


def forward_links(ctx):
    facts = ctx.facts
    plans = all_plans(facts)
    n = 0
    for name, lst in sorted(plans.items()):
        for f, es in lst:
            ns = names(es)
            for i, e in enumerate(es):
                if e['kind'] != 'split' or e['strategy'][0] != 'OnlyOne' or e.get('via'):
                    continue
                # effects until the next boundary/op
                nxt = []
                for e2 in es[i + 1:]:
                    if e2['kind'] in ('split', 'binary', 'op', 'finalize'):
                        break
                    nxt.append(e2)
                n += 1
                rep = [x for x in nxt if x['kind'] == 'repl']
                sched = [x for x in nxt if x['kind'] == 'set_scheduling']
                # (c) loop constructs assert that the producer is Unlimited and leave the consumer Unlimited
                asserts_unlimited = any('is_unlimited' in (t['callee'].get('path') or '') for _, t in f.calls())
                ok = any(r['repl'] in (('const', 'One'), ('call', 'new_one')) for r in rep) or bool(sched) or (asserts_unlimited and not rep)
                ctx.inst('%s|OnlyOne@%s' % (name, e['at']), {'combinator': f.path, 'after the boundary': names(nxt)})
                if not ok:
                    what = names(rep) or ['nothing']
                    ctx.viol('%s|forward-link-to-%s' % (name, what[0]), e['at'],
                             '%s creates a forward (OnlyOne) link and sets the consumer replication to %s: with Limited(n), 1 < n < cores '
                             '(or Host on several hosts) producer replicas without a same-index consumer are left unconnected and '
                             'their elements are dropped silently' % (name, what), {'effects': ns})
    if n < 3:
        raise Inconclusive('fewer than 3 direct OnlyOne boundaries found (%d)' % n)


@rule('C11', 'R1', 'binary_connection caches exactly the input that comes from outside the loop')
def c11_r1(ctx):
    facts = ctx.facts
    bc = facts.one(r'Stream::<Op>::binary_connection$')
    sym = q.sym(facts, bc)
    # the tuple (iteration_ctx, left_cache, right_cache) assignments
    other_p = q.param(bc, 'Stream<', 1)      # binary_connection(self, oth, ..): the second stream
    tups = []
    for bi, blk in enumerate(bc.blocks):
        if blk['cleanup']:
            continue
        for s in blk['s']:
            if s['k'] == 'assign' and s['rv']['r'] == 'agg' and s['rv']['k'] == 'tuple' and len(s['rv']['o']) == 3:
                vals = [render(strip(sym.operand(o))) for o in s['rv']['o']]
                if vals[1] in ('true', 'false') and vals[2] in ('true', 'false'):
                    tups.append((bi, s, vals))
    if len(tups) != 3:
        raise AnchorMissing('binary_connection: expected three (ctx, left_cache, right_cache) arms, found %d' % len(tups))
    for bi, s, vals in tups:
        dnf = q.cond_of_block(facts, bc, bi)
        ctx.inst('binary_connection|cache=%s,%s' % (vals[1], vals[2]), {'ctx': vals[0][:80], 'conditions': show_dnf(dnf)})
        l, r = vals[1] == 'true', vals[2] == 'true'
        if l and r:
            ctx.viol('%s|both-cached' % bc.path, s['at'], 'binary_connection caches both inputs', None)
        if l:
            # left cached <=> left ctx empty ; new block inherits the right ctx
            if not q.cond_has(dnf, lambda a: a[0] == 'bool' and 'is_empty' in a[1] and a[2] is True) or other_p not in vals[0]:
                ctx.viol('%s|left-cache' % bc.path, s['at'],
                         'the left input is cached on a path where its iteration context is not known to be empty, or the new block '
                         'does not inherit the other side\'s context (ctx=%s, conditions=%s)' % (vals[0][:60], show_dnf(dnf)), None)
        if r:
            if not q.cond_has(dnf, lambda a: a[0] == 'bool' and 'is_empty' in a[1] and a[2] is False) and not q.cond_has(dnf, lambda a: a[0] == 'bool' and 'is_empty' in a[1]):
                ctx.viol('%s|right-cache' % bc.path, s['at'], 'the right input is cached without testing which side is outside the loop', None)
            if 'self' not in vals[0]:
                ctx.viol('%s|right-cache-ctx' % bc.path, s['at'], 'with the right input cached the new block must inherit the left context', None)
        if not l and not r:
            if not q.cond_has(dnf, lambda a: a[0] == 'bool' and ('eq' in a[1].lower()) and a[2] is True):
                ctx.viol('%s|no-cache-guard' % bc.path, s['at'], 'no input is cached on a path where the two iteration contexts are not known to be equal', None)
    # mixed non-empty contexts panic
    # the cache flags reach the start operator constructor in the same order
    calls = [t for bi, t in bc.calls() if t['callee'].get('indirect') or (t['callee'].get('path') or '').startswith('std::ops::FnOnce')]
    okorder = False
    for t in calls:
        args = [render(strip(sym.operand(a))) for a in t['args']]
        flat = ' '.join(args)
        if 'phi' in flat or 'left_cache' in flat or '.1' in flat:
            okorder = True
    ctx.inst('binary_connection|start-operator-call', {'indirect calls': len(calls)})


@rule('C10', 'R6', 'loop plan shape: leader block, feedback edge, fragile output edge, iteration context pushed for the body and popped after')
def c10_r6(ctx):
    facts = ctx.facts
    plans = all_plans(facts)
    for name in ('Stream::replay', 'Stream::iterate'):
        if name not in plans:
            raise AnchorMissing('%s not found' % name)
        f, es = plans[name][0]
        ns = names(es)
        ctx.inst(name, {'effects': ns})
        if 'user_closure' not in ns:
            ctx.viol('%s|no-body' % name, f.at, '%s never calls the loop body closure' % name, None)
            continue
        ui = ns.index('user_closure')
        if 'op:IterationEnd' not in ns[ui:]:
            ctx.viol('%s|no-iteration-end' % name, f.at, '%s does not terminate the body with IterationEnd' % name, None)
        if not any(n.startswith('op:KeyedFold') or n.startswith('op:Fold') for n in ns[ui:ns.index('op:IterationEnd')] if 'op:IterationEnd' in ns[ui:]):
            ctx.viol('%s|no-local-fold' % name, f.at, '%s does not fold the body output locally before the leader' % name, None)
        if ns.count('new_block') < 1 or 'connect_blocks' not in ns:
            ctx.viol('%s|no-leader-links' % name, f.at, '%s does not create/connect the leader block' % name, None)
        sym = q.sym(facts, f)
        # iteration_ctx push before the body, pop after
        pushes = [(bi, t) for bi, t in f.calls() if (t['callee'].get('path') or '').endswith('Vec::<T, A>::push') and 'iteration_ctx' in render(strip(sym.operand(t['args'][0])))]
        pops = [(bi, t) for bi, t in f.calls() if (t['callee'].get('path') or '').endswith('Vec::<T, A>::pop') and 'iteration_ctx' in render(strip(sym.operand(t['args'][0])))]
        body = [(bi, t) for bi, t in f.calls() if (t['callee'].get('indirect') or (t['callee'].get('path') or '').startswith('std::ops::FnOnce'))
                and any('Stream<' in f.locals[a[1][0]]['ty'] for a in t['args'] if a[0] != 'k' and is_local(a[1]))]
        ctx.inst(name + '|iteration_ctx', {'push': [t['at'] for _, t in pushes], 'pop': [t['at'] for _, t in pops], 'body call': [t['at'] for _, t in body]})
        if not pushes or not pops or not body or not (f.dominates(pushes[0][0], body[0][0]) and f.dominates(body[0][0], pops[0][0])):
            ctx.viol('%s|ctx-scope' % name, f.at,
                     '%s must push the state lock on iteration_ctx before calling the body and pop it afterwards: blocks of the '
                     'body would otherwise not wait for the state of their own loop' % name, None)
        # replication asserted Unlimited
        asserts = [t for bi, t in f.calls() if 'is_unlimited' in (t['callee'].get('path') or '')]
        if not asserts:
            ctx.viol('%s|replication-assert' % name, f.at, '%s no longer asserts unlimited replication of the loop head' % name, None)
        if name == 'Stream::iterate':
            if 'connect_blocks_fragile' not in ns:
                ctx.viol('%s|output-not-fragile' % name, f.at, 'iterate must connect its output edge as fragile', None)
            mf = [t for bi, t in f.calls() if (t['callee'].get('path') or '').endswith('mark_feedback')] + \
                 [t for g in facts.closures_of(f) for bi, t in g.calls() if (t['callee'].get('path') or '').endswith('mark_feedback')]
            ig = [t for g in [f] + facts.closures_of(f) for bi, t in g.calls() if (t['callee'].get('path') or '').endswith('ignore_destination')]
            ctx.inst(name + '|feedback', {'mark_feedback': len(mf), 'ignore_destination': len(ig)})
            if not mf or not ig:
                ctx.viol('%s|feedback-marks' % name, f.at,
                         'iterate must mark the feedback edge (no Terminate through it) and ignore the output destination in the body End', None)


def flag_strategy_agreement(ctx):
    """the scheduler wires a block by its `is_only_one_strategy` flag while End routes by its NextStrategy: both must be
    derived from the same strategy value for the same block (two sites that each look fine alone)"""
    facts = ctx.facts
    n = 0
    for f in facts.lib_fns():
        if f.crate != 'renoir' or f.kind != 'assoc':
            continue
        writes = []
        for bi, blk in enumerate(f.blocks):
            if blk['cleanup']:
                continue
            for s in blk['s']:
                if s['k'] == 'assign' and not is_local(s['lhs']) and s['lhs'][-1][0:1] == ['f'] and s['lhs'][-1][2] == 'is_only_one_strategy':
                    writes.append((bi, s))
        if not writes:
            continue
        sym = q.sym(facts, f)
        for bi, s in writes:
            n += 1
            blk_local = s['lhs'][0]
            # (a) which strategy decides the flag
            flag_src = set()
            o = s['rv'].get('o')
            vloc = q.base_local(f, o) if (s['rv']['r'] == 'use' and o and o[0] != 'k') else None
            if vloc is not None:
                for (db, ds) in f.defs().get(vloc, []):
                    node = f.def_node((db, ds))
                    if ds != 'T' and node['rv']['r'] == 'use' and node['rv']['o'][:2] == ['k', 'true']:
                        for c in q.cond_of_block(facts, f, db):
                            for a in c:
                                if a[0] == 'is' and a[2] == 'OnlyOne':
                                    flag_src.add(a[1].lstrip('&*'))
            # (b) which strategy the End operator of that block was built with
            end_src = set()
            d = f.single_def(blk_local)
            if d is not None and d[1] == 'T':
                t = f.def_node(d)
                for a in t['args']:
                    x = strip(sym.operand(a))
                    if x[0] == 'agg' and x[1][0] == 'closure':
                        for cap in x[2]:
                            r = render(strip(cap)).lstrip('&*')
                            if r in {'arg%d' % i_ for i_ in range(1, f.argc + 1) if 'NextStrategy<' in f.locals[i_]['ty']}:
                                end_src.add(r)
            ctx.inst('%s|%s' % (f.path, s['at']), {'function': f.path, 'flag decided by': sorted(flag_src), 'End built with': sorted(end_src)})
            if flag_src and end_src and not (flag_src & end_src):
                ctx.viol('%s|flag-strategy-mismatch|%s' % (f.path, sorted(end_src)[0]), s['at'],
                         'the block whose End routes by `%s` gets its is_only_one_strategy flag from `%s`: the scheduler wires the block '
                         '1:1 (or all-to-all) while End routes with the other strategy, so elements are silently dropped or mis-delivered '
                         'when the consumer is replicated' % (sorted(end_src)[0], sorted(flag_src)[0]), None)
    if n < 3:
        raise Inconclusive('fewer than 3 assignments of is_only_one_strategy found (%d)' % n)


@rule('C03', 'R5', 'a block\'s only-one wiring flag is derived from the same NextStrategy its End operator routes with')
def c03_r5(ctx):
    flag_strategy_agreement(ctx)


@rule('C01', 'R4', 'wiring flag and routing strategy of every block boundary agree')
def c01_r4(ctx):
    flag_strategy_agreement(ctx)


@rule('C19', 'R7', 'the scheduler-visible only-one flag agrees with the routing strategy of the block')
def c19_r7(ctx):
    flag_strategy_agreement(ctx)


def forward_scheduling_inheritance(ctx):
    """binary_connection: the scheduler connects a forward (OnlyOne) producer replica only to the same-index consumer replica, so the
    new block must inherit the scheduling of an input it is reached from by a forward link (two sites: the match that picks the
    scheduling and the End operators built with the strategies)"""
    facts = ctx.facts
    bc = facts.one(r'Stream::<Op>::binary_connection$')
    sym = q.sym(facts, bc)
    strat_params = {'arg%d' % i for i in range(1, bc.argc + 1) if 'NextStrategy<' in bc.locals[i]['ty']}
    ends = {}
    for bi, t in bc.calls():
        if (t['callee'].get('path') or '').endswith('::add_operator') and len(t['args']) >= 2:
            blk_s = render(strip(sym.operand(t['args'][0])))
            x = strip(sym.operand(t['args'][1]))
            if x[0] == 'agg' and x[1][0] == 'closure':
                for cap in x[2]:
                    r = render(strip(cap)).lstrip('&*')
                    if r in strat_params:
                        ends[r] = blk_s
    if len(ends) != 2:
        raise AnchorMissing('binary_connection: expected two End operators built with the two strategies (found %s)' % ends)
    writes = []
    for bi, blk in enumerate(bc.blocks):
        if blk['cleanup']:
            continue
        for st in blk['s']:
            if st['k'] == 'assign' and not is_local(st['lhs']) and st['lhs'][-1][0:1] == ['f'] and st['lhs'][-1][2] == 'scheduling':
                writes.append((bi, st))
    if not writes:
        raise AnchorMissing('binary_connection never sets the scheduling of the new block')
    for bi, st in writes:
        o = st['rv'].get('o')
        vloc = q.base_local(bc, o) if (st['rv']['r'] == 'use' and o and o[0] != 'k') else None
        defs = bc.defs().get(vloc, []) if vloc is not None else []
        if not defs:
            raise Inconclusive('binary_connection: the scheduling value is not a local with visible definitions')
        for (db, ds) in defs:
            node = bc.def_node((db, ds))
            val = (node['callee'].get('path') or '').rsplit('::', 2)[-2] + '::default()' if ds == 'T' else render(strip(sym.rvalue(node['rv'])))
            dnf = q.cond_of_block(facts, bc, db)
            ctx.inst('binary_connection|scheduling=%s' % val[:60], {'at': (node.get('at') or st['at']), 'conditions': show_dnf(dnf)})
            for c in dnf:
                fwd = sorted(a[1].lstrip('&*') for a in c if a[0] == 'is' and a[2] == 'OnlyOne')
                if not fwd:
                    continue
                allowed = [ends[x] + '.scheduling' for x in fwd if x in ends]
                if val not in allowed:
                    ctx.viol('%s|forward-scheduling|%s' % (bc.path, '+'.join(fwd)), node.get('at') or st['at'],
                             'when %s is OnlyOne (a forward link) the new block gets `%s` as its scheduling instead of %s: with different '
                             'replications the producer replicas without a same-index consumer are left unconnected and their elements '
                             'are dropped silently' % (' and '.join(fwd), val[:60], ' / '.join(allowed)), None)


@rule('C03', 'R6', 'a block reached through a forward (OnlyOne) link of a binary connection inherits the scheduling of that input')
def c03_r6(ctx):
    forward_scheduling_inheritance(ctx)


@rule('C19', 'R9', 'binary connections: forward links get a consumer with the producer\'s scheduling')
def c19_r9(ctx):
    forward_scheduling_inheritance(ctx)


@rule('C19', 'R8', 'in-repo callers (lib, tests, examples, benches) of the forward-link combinators and the replication they pass', tier='thorough')
def c19_r8(ctx):
    facts = getattr(ctx.facts, 'all_targets', None) or ctx.facts
    n = 0
    for f in facts.fns:
        sym = None
        for bi, t in f.calls():
            p = t['callee'].get('path') or ''
            if p.endswith('>::replication') and 'Stream' in p or p.endswith('>::repartition_by'):
                sym = sym or Sym(f, facts=facts)
                arg = plan.replication_of(sym.operand(t['args'][1])) if len(t['args']) > 1 else ('?',)
                n += 1
                ctx.inst('%s|%s|%d' % (f.crate, f.path, n), {'caller': f.path, 'crate': f.crate, 'at': t['at'], 'replication argument': ':'.join(arg)})
                if arg[0] == 'call' and arg[1] in ('new_limited', 'new_host') or arg == ('const', 'Host') or (arg[0] == 'const' and arg[1] == 'Limited'):
                    ctx.note('caller %s passes %s to a forward-link combinator (exposed to known finding F5)' % (f.path, ':'.join(arg)))
    if n < 5:
        raise Inconclusive('fewer than 5 callers of Stream::replication found in all targets (%d)' % n)


@rule('C01', 'R6', 'every keyed stream is partitioned by the same function: group_by, group_by_fold and both join sides route by the one fixed-seed hash of the key')
def c01_r6(ctx):
    """keyed joins connect their inputs forward (replica i to replica i) and rely on every keyed stream being partitioned alike; an
    aggregate that shuffles with another hash is correct alone and wrong when composed - the result then depends on the parallelism"""
    c03_r3(ctx)


@rule('C08', 'R6', 'keyed joins meet co-partitioned inputs: every producer of a keyed stream (group_by, group_by_fold, join shipping) routes by the same fixed-seed hash of the key')
def c08_r6(ctx):
    c03_r3(ctx)
