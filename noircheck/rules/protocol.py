"""Stream-protocol rules over operator automata (E1): C05.R1/R2/R6, C04.R1, C17.R3, C18.R1, C20.R4."""
from ..core import rule, Inconclusive
from ..facts import SE_VARIANTS, AnchorMissing
from ..absint import Bound
from ..opsum import operator_nexts, automaton, K_OUT, OP_TRAIT

SRC_TRAIT = 'renoir::operator::source::Source'

# Operators whose `next` is not a plain "ask upstream, transform, return" state machine.  Each is
# covered by the bespoke rule named in the reason instead of the generic automaton rules.
SPECIAL = {
    'renoir::operator::start::Start':
        'block input: counts end markers of all upstream replicas (C04.R2 / C05.R7 check its counters)',
    'renoir::operator::iteration::iterate::Iterate':
        'loop head fed by raw network receivers, not by an upstream Operator (C10.R3 / C05.R8)',
    'renoir::operator::iteration::leader::IterationLeader':
        'loop leader: consumes one delta per IterationEnd replica per round and generates its own '
        'FlushAndRestart (C10.R5); its Terminate edge is checked by C04.R6',
    'renoir::operator::sink::collect::Collect':
        'sink that drains the whole stream inside one activation through iter::from_fn (C05.R9)',
    'renoir::operator::rich_map_custom::RichMapCustom':
        'hands the upstream to a user closure (ElementGenerator): protocol conformance is the '
        'user\'s obligation, stated as not decided',
}
# Operators allowed to emit FlushAndRestart more often than they receive it, with the reason.
FAR_GENERATORS = {
    'renoir::operator::iteration::replay::Replay':
        'replays the recorded input, including its FlushAndRestart, once per loop round (C10.R3)',
}


def short(fn):
    return fn.impl_adt.split('::')[-1] if fn.impl_adt else fn.path


def standard_operators(facts):
    ops = operator_nexts(facts)
    if len(ops) < 10:
        raise AnchorMissing('fewer than 10 impls of %s::next found' % OP_TRAIT)
    src_adts = {i.get('self_adt') for i in facts.impls_of(SRC_TRAIT)}
    std, sources, special = [], [], []
    for f in ops:
        if f.impl_adt in SPECIAL:
            special.append(f)
            continue
        try:
            a = automaton(facts, f)
        except Bound as e:
            raise Inconclusive(str(e))
        if a.has_input:
            std.append((f, a))
        elif f.impl_adt in src_adts:
            sources.append((f, a))
        else:
            special.append(f)
    return std, sources, special


def _exact(a, n, v):
    return a.g.is_return(n) and a.ret_set(n) == frozenset([v])


def _maybe(a, n, v):
    if not a.g.is_return(n):
        return False
    rs = a.ret_set(n)
    return rs is None or v in rs


def check_delivery(ctx, f, a, v):
    """after input V the operator returns V before asking upstream again (results may come first)"""
    g = a.g
    starts = [m for (_, m) in a.input_edges.get(v, [])]
    site = '%s|%s' % (short(f), v)
    if not starts:
        return
    reach = g.reachable(starts, avoid=lambda n: _maybe(a, n, v) or a.is_input_node(n))
    bad = [n for n in reach if a.is_input_node(n)]
    ok = [n for n in g.reachable(starts, avoid=lambda n: _exact(a, n, v) or a.is_input_node(n)) if _exact(a, n, v)]
    ctx.inst(site, {'operator': f.path, 'input': v, 'input_edges': len(starts),
                    'return_sites_of_%s' % v: sorted({g.fn.blocks[g.block(n)]['t']['at'] for n in ok}),
                    'automaton_nodes': len(g.nodes)})
    if bad:
        n = bad[0]
        p = g.path_to(n, starts, avoid=lambda x: _maybe(a, x, v))
        ctx.viol('%s|lost-%s' % (f.impl_adt, v), f.at,
                 '%s::next can ask upstream for the next element after receiving %s without having '
                 'returned %s (marker lost or overtaken)' % (short(f), v, v),
                 {'path': g.describe_path(p) if p else None})
        return
    # weaker: only unknown-variant returns separate us from a re-input
    reach2 = g.reachable(starts, avoid=lambda n: _exact(a, n, v) or a.is_input_node(n))
    if any(a.is_input_node(n) for n in reach2):
        raise Inconclusive('%s: a return of unknown variant lies between input %s and the next input' % (short(f), v))
    if not ok:
        ctx.viol('%s|never-%s' % (f.impl_adt, v), f.at,
                 '%s::next has no reachable `return %s` after receiving %s' % (short(f), v, v), None)


def check_fabrication(ctx, f, a, v):
    """a return V needs a V received since the previous return V"""
    g = a.g
    site = '%s|%s' % (short(f), v)
    starts = [g.root] + [m for (n, m) in g.activation_edges if _exact(a, n, v)]
    reach = g.reachable(starts, avoid_edge=lambda n, m: g.labels.get((n, m)) == v)
    fab = [n for n in reach if _exact(a, n, v)]
    ctx.inst(site, {'operator': f.path, 'marker': v, 'searched_nodes': len(reach)})
    if fab:
        p = g.path_to(fab[0], starts, avoid_edge=lambda n, m: g.labels.get((n, m)) == v)
        ctx.viol('%s|fabricated-%s' % (f.impl_adt, v), f.at,
                 '%s::next can return %s without having received one since the last %s it returned'
                 % (short(f), v, v), {'path': g.describe_path(p) if p else None})


@rule('C05', 'R1', 'FlushAndRestart / Terminate received from upstream is returned before the next input is requested')
def c05_r1(ctx):
    std, sources, special = standard_operators(ctx.facts)
    for f, a in std:
        for v in ('FlushAndRestart', 'Terminate'):
            check_delivery(ctx, f, a, v)
    for f in special:
        ctx.exception(f.impl_adt, SPECIAL.get(f.impl_adt, 'no upstream Operator input and not a Source'))


@rule('C05', 'R2', 'FlushAndRestart / Terminate are never fabricated by a non-source operator')
def c05_r2(ctx):
    std, sources, special = standard_operators(ctx.facts)
    for f, a in std:
        for v in ('FlushAndRestart', 'Terminate'):
            if v == 'FlushAndRestart' and f.impl_adt in FAR_GENERATORS:
                ctx.exception(f.impl_adt, FAR_GENERATORS[f.impl_adt])
                continue
            check_fabrication(ctx, f, a, v)


@rule('C05', 'R6', 'source grammar: a Source returns Terminate only after it has returned FlushAndRestart')
def c05_r5(ctx):
    std, sources, special = standard_operators(ctx.facts)
    for f, a in sources:
        g = a.g
        # from the initial state, without passing a `return FlushAndRestart`, no `return Terminate`
        reach = g.reachable([g.root], avoid=lambda n: _exact(a, n, 'FlushAndRestart'))
        bad = [n for n in reach if _exact(a, n, 'Terminate')]
        fars = [n for n in g.return_nodes() if _exact(a, n, 'FlushAndRestart')]
        terms = [n for n in g.return_nodes() if _exact(a, n, 'Terminate')]
        ctx.inst(short(f), {'source': f.path, 'return FlushAndRestart nodes': len(fars), 'return Terminate nodes': len(terms)})
        if bad:
            p = g.path_to(bad[0], [g.root], avoid=lambda n: _exact(a, n, 'FlushAndRestart'))
            ctx.viol('%s|terminate-before-far' % f.impl_adt, f.at,
                     'source %s can return Terminate before any FlushAndRestart' % short(f),
                     {'path': g.describe_path(p) if p else None})
        if not fars or not terms:
            ctx.viol('%s|missing-end-marker' % f.impl_adt, f.at,
                     'source %s has no reachable return of %s' % (short(f), 'FlushAndRestart' if not fars else 'Terminate'), None)
        # after FlushAndRestart the very next activation returns Terminate or restarts cleanly: it must
        # not return data of the *same* input again without an explicit restart; sources in this crate
        # set a `terminated` latch - a FlushAndRestart must never directly follow a FlushAndRestart
        nxt = [m for (n, m) in g.activation_edges if _exact(a, n, 'FlushAndRestart')]
        reach2 = g.reachable(nxt, avoid=lambda n: g.is_return(n))
        again = [n for n in reach2 if _exact(a, n, 'FlushAndRestart')]
        if again:
            ctx.viol('%s|double-far' % f.impl_adt, f.at,
                     'source %s can return FlushAndRestart twice in a row' % short(f), None)


def classify(a, v):
    """'forward' (every path returns V before next input), 'drop' (some path re-inputs without V),
    'panic' (no return and no re-input), 'absorb+...'"""
    g = a.g
    starts = [m for (_, m) in a.input_edges.get(v, [])]
    if not starts:
        return 'unreachable'
    reach = g.reachable(starts, avoid=lambda n: _exact(a, n, v) or a.is_input_node(n))
    re_in = any(a.is_input_node(n) for n in reach)
    ret_v = any(_exact(a, n, v) for n in reach)
    if ret_v and not re_in:
        return 'forward'
    if ret_v and re_in:
        return 'sometimes'
    if re_in:
        return 'drop'
    return 'panic'


WM_NON_FORWARDERS = {
    'renoir::operator::add_timestamps::DropTimestamp': ('drop', 'its purpose: removes timestamps and watermarks'),
    'renoir::operator::add_timestamps::AddTimestamp': ('panic', 'input must not be timestamped already'),
    'renoir::operator::interval_join::IntervalJoin': ('drop', 'uses watermarks to advance and absorbs them (nothing downstream of an interval join sees a watermark: evidence note)'),
    'renoir::operator::iteration::iteration_end::IterationEnd': ('panic', 'loop bodies cannot carry watermarks'),
    'renoir::operator::join::keyed_join::JoinKeyedInner': ('panic', 'explicit "Cannot yet join timestamped streams"'),
    'renoir::operator::join::keyed_join::JoinKeyedOuter': ('panic', 'explicit "Cannot yet join timestamped streams"'),
    'renoir::operator::join::local_hash::JoinLocalHash': ('panic', 'explicit "Cannot yet join timestamped streams"'),
    'renoir::operator::join::local_sort_merge::JoinLocalSortMerge': ('panic', 'explicit "Cannot yet join timestamped streams"'),
    'renoir::operator::fold::Fold': ('drop', 'held back: one watermark (the maximum) is emitted after the result at the end of the iteration (C06.R3)'),
    'renoir::operator::keyed_fold::KeyedFold': ('drop', 'held back: one watermark (the maximum) is emitted after the results at the end of the iteration (C06.R3)'),
}


@rule('C17', 'R3', 'every operator forwards a received Watermark before asking for more input (frozen list of absorbers)')
def c17_r3(ctx):
    std, sources, special = standard_operators(ctx.facts)
    for f, a in std:
        k = classify(a, 'Watermark')
        ctx.inst(short(f), {'operator': f.path, 'watermark_edge': k})
        if k == 'forward':
            continue
        exp = WM_NON_FORWARDERS.get(f.impl_adt)
        if exp and exp[0] == k:
            ctx.exception(f.impl_adt, '%s: %s' % (k, exp[1]))
        else:
            ctx.viol('%s|watermark-%s' % (f.impl_adt, k), f.at,
                     '%s::next does not forward a received Watermark before its next input request (%s)%s'
                     % (short(f), k, '' if not exp else '; the frozen exception expects "%s"' % exp[0]), None)


FB_NON_FORWARDERS = {
    'renoir::operator::fold::Fold': 'emits nothing before the end of the iteration; FlushAndRestart flushes the block',
    'renoir::operator::keyed_fold::KeyedFold': 'emits nothing before the end of the iteration; FlushAndRestart flushes the block',
}


@rule('C18', 'R1', 'FlushBatch is forwarded through every operator chain (frozen list of absorbers)')
def c18_r1(ctx):
    std, sources, special = standard_operators(ctx.facts)
    for f, a in std:
        k = classify(a, 'FlushBatch')
        ctx.inst(short(f), {'operator': f.path, 'flushbatch_edge': k})
        if k == 'forward':
            continue
        if f.impl_adt in FB_NON_FORWARDERS and k == 'drop':
            ctx.exception(f.impl_adt, FB_NON_FORWARDERS[f.impl_adt])
        else:
            ctx.viol('%s|flushbatch-%s' % (f.impl_adt, k), f.at,
                     '%s::next swallows FlushBatch (%s): an idle-flush request never reaches the End of the block'
                     % (short(f), k), None)


@rule('C04', 'R1', 'Terminate is conserved by every operator: returned exactly when received, never asked past')
def c04_r1(ctx):
    std, sources, special = standard_operators(ctx.facts)
    for f, a in std:
        check_delivery(ctx, f, a, 'Terminate')
        check_fabrication(ctx, f, a, 'Terminate')
        g = a.g
        after = a.input_edges.get('AFTER_TERMINATE', [])
        if after:
            n = after[0][0]
            p = g.path_to(n, [g.root])
            ctx.viol('%s|input-after-terminate' % f.impl_adt, f.at,
                     '%s::next can call upstream again after upstream returned Terminate' % short(f),
                     {'path': g.describe_path(p) if p else None})
    for f in special:
        ctx.exception(f.impl_adt, SPECIAL.get(f.impl_adt, 'no upstream Operator input and not a Source'))


def transfer_tables(facts):
    std, sources, special = standard_operators(facts)
    return {short(f): a.transfer_table() for f, a in std}
