"""State-reset rules (E1 with the emptiness domain): C05.R3 / C05.R4, shared with C07, C08, C12-C14."""
import json

from ..core import rule, Inconclusive
from ..facts import pkey, AnchorMissing
from ..absint import Interp, Bound
from ..modset import mod_fields
from ..opsum import se_summaries, closure_variants
from .protocol import standard_operators, short, _exact, FAR_GENERATORS

EMPTY = (('e',), ('q', ()), ('v', frozenset(['None'])))
# scalar state (flags, counters): must hold its constructed constant again when the iteration ends
SCALARS = ('bool', 'usize', 'u64', 'u32', 'u16', 'u8', 'isize', 'i64', 'i32', 'i16', 'i8')

# state fields that are allowed to differ from their constructed value at `return FlushAndRestart`
R3_EXCEPTIONS = {
    ('renoir::operator::flat_map::FlatMap', 'timestamp'): 'only read while `frontiter` is Some and overwritten by every new element',
    ('renoir::operator::flat_map::KeyedFlatMap', 'timestamp'): 'only read while `frontiter` is Some and overwritten by every new element',
    ('renoir::operator::flatten::Flatten', 'timestamp'): 'only read while `frontiter` is Some and overwritten by every new element',
    ('renoir::operator::flatten::KeyedFlatten', 'timestamp'): 'only read while `frontiter` is Some and overwritten by every new element',
    ('renoir::operator::keyed_fold::KeyedFold', 'timestamps'): 'emptied key by key (`remove`) together with `accumulators.drain()`: every key of it is a key of accumulators',
    ('renoir::operator::reorder::Reorder', 'scratch'): 'scratch space of the sort routine, holds no elements between calls',
    ('renoir::operator::rich_map::RichMap', 'maps_fn'): 'documented per-key closures kept across iterations (reset is commented out upstream; evidence note under C07)',
    ('renoir::operator::window::WindowOperator', 'manager.windows'): 'the per-key managers are kept unless recycle() says they are empty; what a manager keeps across an iteration end is checked by C05.R4',
    ('renoir::operator::iteration::replay::Replay', 'content'): 'the recorded input is replayed every round by design and cleared when the loop finishes (C10)',
    ('renoir::operator::iteration::replay::Replay', 'content_index'): 'position inside the recorded input: the FlushAndRestart that Replay returns ends a *round* of its own loop, the replay state is reset when the loop finishes (C10)',
    ('renoir::operator::iteration::replay::Replay', 'input_finished'): 'the input is recorded once and replayed every round by design; reset when the loop finishes (C10)',
    ('renoir::operator::sink::collect_count::CollectCountSink', 'result'): 'a sink accumulates until Terminate, across iterations, by design (published only on Terminate: C04.R4 / C20.R4)',
}


def state_fields(facts, f, interp):
    """(place, dotted name, type) of the emptiable state: collection / Option fields of the operator, also one level
    inside fields that are crate-local structs (e.g. the two SideHashMap of a join)"""
    adt = facts.adts[f.impl_adt]
    ms = mod_fields(facts, f)
    out = []
    for i, fl in enumerate(adt['variants'][0]['fields']):
        ty = fl['ty']
        if '*' not in ms and fl['name'] not in ms:
            continue
        base = [1, '*', ['f', i, fl['name']]]
        if ty.startswith(interp.COLL_PREFIXES) or ty.startswith('std::option::Option<') or ty in SCALARS:
            out.append((base, fl['name'], ty))
        elif fl.get('adt') in facts.adts and facts.adts[fl['adt']]['kind'] == 'struct' and not ty.startswith(('&', '*')) and fl['name'] != 'prev':
            for j, g in enumerate(facts.adts[fl['adt']]['variants'][0]['fields']):
                if g['ty'].startswith(interp.COLL_PREFIXES):
                    out.append((base + [['f', j, g['name']]], '%s.%s' % (fl['name'], g['name']), g['ty']))
    return out


@rule('C05', 'R3', 'restart invariant: at every `return FlushAndRestart` each state field is empty/None as at construction')
def c05_r3(ctx):
    restart_invariant(ctx)


def restart_invariant(ctx, only=None):
    std, sources, special = standard_operators(ctx.facts)
    total = 0
    for f, a in std:
        if only is not None and not only(f.impl_adt or ''):
            continue
        g = a.g
        fars = [n for n in g.return_nodes() if _exact(a, n, 'FlushAndRestart')]
        for place, name, ty in state_fields(ctx.facts, f, a.interp):
            key = pkey(place)
            init = a.init.get(key)
            if len(place) > 3 and init is None:
                init = ('e',)   # nested collections of a Default-constructed helper struct start empty
            scalar = ty in SCALARS
            if scalar and not (init and init[0] == 'c'):
                continue     # a scalar whose constructed value is not one constant is configuration, not state
            if not scalar and init not in EMPTY:
                continue     # configured by setup or not an emptiable state
            total += 1
            if scalar:
                bad = [n for n in fars if g.pre_term[n].get(key) != init]
            else:
                bad = [n for n in fars if g.pre_term[n].get(key) not in EMPTY]
            site = '%s.%s' % (short(f), name)
            ctx.inst(site, {'operator': f.path, 'field': name, 'type': ty[:80],
                            'return FlushAndRestart nodes': len(fars),
                            'value there': sorted({repr(g.pre_term[n].get(key)) for n in fars})})
            if not bad:
                continue
            exc = R3_EXCEPTIONS.get((f.impl_adt, name))
            if exc:
                ctx.exception('%s.%s' % (f.impl_adt, name), exc)
                continue
            p = g.path_to(bad[0], [g.root])
            ctx.viol('%s|carry-over|%s' % (f.impl_adt, name), f.at,
                     '%s::next can return FlushAndRestart while state field `%s` is not known to be %s: '
                     'results or state of this iteration can leak into the next one' % (short(f), name, ('back at its constructed value %s' % init[1]) if scalar else 'empty/None'),
                     {'path': g.describe_path(p) if p else None, 'value': repr(g.pre_term[bad[0]].get(key))})
    ctx.count('state_fields_checked', total)


WM_TRAIT = 'renoir::operator::window::WindowManager'


def explore_process(facts, f, variant):
    it = Interp(facts, f, summaries=se_summaries(facts))
    it.closure_pushes = closure_variants(facts, it.summaries)
    init = {pkey([2]): ('v', frozenset([variant]))}
    return it, it.explore(0, init)


def recycled(facts, rec, selfstate):
    it = Interp(facts, rec, summaries={})
    try:
        g = it.explore(0, dict(selfstate))
    except Bound:
        return False
    rs = g.return_nodes()
    return bool(rs) and all(g.ret_value(n) == ('c', 'true') for n in rs)


@rule('C05', 'R4', 'window managers keep no slot across an iteration end (FlushAndRestart/Terminate drain every slot field)')
def c05_r4(ctx):
    ps = ctx.facts.impl_methods(WM_TRAIT, 'process')
    if len(ps) < 3:
        raise AnchorMissing('fewer than 3 impls of WindowManager::process')
    for f in sorted(ps, key=lambda x: x.path):
        adt = ctx.facts.adts[f.impl_adt]
        for variant in ('FlushAndRestart',):
            try:
                it, g = explore_process(ctx.facts, f, variant)
            except Bound as e:
                raise Inconclusive(str(e))
            rets = g.return_nodes()
            # a manager whose `recycle()` is true after the call is dropped by WindowOperator (`retain`)
            rec = ctx.facts.method(f.impl_adt, 'recycle', required=False)
            live = []
            for n in rets:
                if rec is not None and recycled(ctx.facts, rec, it.carried(g.pre_term[n])):
                    continue
                live.append(n)
            ctx.count('process_returns', len(rets))
            ctx.count('process_returns_recycled', len(rets) - len(live))
            rets = live
            ms = mod_fields(ctx.facts, f)
            from ..opsum import initial_self_state
            init_st, _ = initial_self_state(ctx.facts, f.impl_adt, {})
            for i, fl in enumerate(adt['variants'][0]['fields']):
                ty = fl['ty']
                key = pkey([1, '*', ['f', i, fl['name']]])
                if ty in SCALARS:
                    # scalar state of a manager (a position counter, a flag): written by process => must be back at its
                    # constructed constant when the iteration ends (the manager object survives unless it is recycled)
                    if '*' not in ms and fl['name'] not in ms:
                        continue
                    if '*' in ms:
                        # the whole of *self is handed to a closure / helper: fall back to "is a field of this name assigned anywhere in
                        # process, its helpers and closures"
                        from .. import q as _q
                        wr = set()
                        for h_ in ctx.facts.family(f):
                            wr |= set(_q.written_field_names(h_))
                        if fl['name'] not in wr:
                            continue
                    ini = init_st.get(key)
                    site = '%s.%s|%s' % (short(f), fl['name'], variant)
                    ctx.inst(site, {'manager': f.path, 'field': fl['name'], 'constructed value': repr(ini), 'value at returns': sorted({repr(g.pre_term[n].get(key)) for n in rets})})
                    if not (ini and ini[0] == 'c'):
                        raise Inconclusive('%s.%s is written by process() but its constructed value is not a constant' % (short(f), fl['name']))
                    bad = [n for n in rets if g.pre_term[n].get(key) != ini]
                    if bad:
                        p = g.path_to(bad[0], [g.root])
                        ctx.viol('%s|scalar-kept|%s|%s' % (f.impl_adt, fl['name'], variant), f.at,
                                 '%s::process(%s) can return with `%s` not reset to its constructed value %s: the position inside '
                                 'the previous iteration leaks into the next one' % (short(f), variant, fl['name'], ini[1]),
                                 {'path': g.describe_path(p) if p else None})
                    continue
                if not (ty.startswith(it.COLL_PREFIXES) or ty.startswith('std::option::Option<')):
                    continue
                vals = {repr(g.pre_term[n].get(key)) for n in rets}
                site = '%s.%s|%s' % (short(f), fl['name'], variant)
                ctx.inst(site, {'manager': f.path, 'field': fl['name'], 'input': variant, 'value at returns': sorted(vals)})
                bad = [n for n in rets if g.pre_term[n].get(key) not in EMPTY]
                if bad:
                    p = g.path_to(bad[0], [g.root])
                    ctx.viol('%s|slot-kept|%s|%s' % (f.impl_adt, fl['name'], variant), f.at,
                             '%s::process(%s) can return with `%s` not drained: a window survives the end of the iteration'
                             % (short(f), variant, fl['name']),
                             {'path': g.describe_path(p) if p else None})


@rule('C08', 'R4', 'join operators start every iteration from their constructed state (side maps, key sets, ended flags, last matched key, buffers)')
def c08_r4(ctx):
    """the restart invariant of C05.R3 restricted to the join operators: a leftover of the previous iteration is a spurious or a
    missing pair of the relational result of the next one"""
    restart_invariant(ctx, only=lambda adt: '::join::' in adt or 'interval_join' in adt)


@rule('C07', 'R5', 'fold / keyed fold / reduce operators start every iteration from their constructed state')
def c07_r5(ctx):
    restart_invariant(ctx, only=lambda adt: '::fold::' in adt or '::keyed_fold::' in adt or 'fold_' in adt or '::reduce' in adt)


def recycle_implies_empty(ctx, only):
    """WindowOperator drops a per-key manager as soon as `recycle()` returns true (the `retain` of C13.R3).  A manager that is
    dropped while it still holds an open window loses the elements accumulated in it: they appear in no result.  So on every
    path on which `recycle()` may return true, every slot field of the manager (collection / Option of a crate-local slot type)
    must be known to be empty / None.  The manager's state is unknown when `recycle()` is entered; the only knowledge is what
    `recycle()` itself tests (is_empty / is_none / len() == 0 ...)."""
    facts = ctx.facts
    impls = [i for i in facts.impls_of(WM_TRAIT) if only(i.get('self_adt') or '')]
    if not impls:
        raise AnchorMissing('no impl of WindowManager selected')
    for i in sorted(impls, key=lambda x: x['self_adt']):
        adt_path = i['self_adt']
        adt = facts.adts[adt_path]
        name = adt_path.rsplit('::', 1)[-1]
        rec = facts.method(adt_path, 'recycle', trait=WM_TRAIT, required=False)
        slots = []
        it0 = None
        for j, fl in enumerate(adt['variants'][0]['fields']):
            ty = fl['ty']
            if (ty.startswith(Interp.COLL_PREFIXES) or ty.startswith('std::option::Option<')) and 'renoir::' in ty:
                slots.append((pkey([1, '*', ['f', j, fl['name']]]), fl['name']))
        if rec is None:
            ctx.inst('%s|recycle' % name, {'manager': adt_path, 'recycle': 'trait default (never dropped early)', 'slot fields': [n for _, n in slots]}, nontrivial=False)
            continue
        if not slots:
            raise Inconclusive('%s has a recycle() but no slot field was recognised' % adt_path)
        it = Interp(facts, rec, summaries={})
        try:
            g = it.explore(0, {})
        except Bound as e:
            raise Inconclusive(str(e))
        rets = g.return_nodes()
        seen = []
        for n in rets:
            v = g.ret_value(n)
            st = g.pre_term[n]
            if v == ('c', 'false'):
                seen.append('false')
                continue
            implied = {}
            if v and v[0] == 'isempty':
                implied[v[1]] = True
            elif v and v[0] == 'isv' and v[2] == 'None' and v[3] is True:
                implied[v[1]] = True
            elif v and v[0] == 'isv' and v[2] == 'Some' and v[3] is False:
                implied[v[1]] = True
            seen.append(repr(v))
            for key, fname in slots:
                if implied.get(key) or st.get(key) in EMPTY:
                    continue
                p = g.path_to(n, [g.root])
                ctx.viol('%s|recycle-not-empty|%s' % (adt_path, fname), rec.at,
                         '%s::recycle() may return true while `%s` is not known to be empty (returned value: %s): WindowOperator drops a '
                         'recycled manager, so the elements accumulated in a still-open window would appear in no result'
                         % (name, fname, 'unrelated to the field' if v is None else repr(v)), {'path': g.describe_path(p) if p else None})
        ctx.inst('%s|recycle' % name, {'manager': adt_path, 'slot fields': [n for _, n in slots], 'return values': sorted(set(seen))})


@rule('C13', 'R5', 'a window manager reports recycle() only when it holds no open window (event-time, transaction)')
def c13_r5(ctx):
    recycle_implies_empty(ctx, lambda a: 'event_time' in a or 'transaction' in a)


@rule('C14', 'R5', 'a window manager reports recycle() only when it holds no open window (processing-time, session)')
def c14_r5(ctx):
    recycle_implies_empty(ctx, lambda a: 'processing_time' in a or 'session' in a)


@rule('C12', 'R5', 'a count window manager is never dropped while it holds an open group (recycle() only when empty)')
def c12_r5(ctx):
    recycle_implies_empty(ctx, lambda a: '::count::' in a)


@rule('C16', 'R4', 'reorder() starts every iteration from its constructed state (buffer, end flag, remembered watermark)')
def c16_r4(ctx):
    """what reorder() remembers of an iteration (buffered elements, the last watermark seen, flags) must not steer the next one:
    watermarks restart with every iteration, so a remembered one would release or forward elements no watermark of the current
    iteration covers yet"""
    restart_invariant(ctx, only=lambda adt: '::reorder::' in adt)
