"""Structural clauses of the count / processing-time / session windows: C12.R1-R3, C14.R1-R3.
The slot arithmetic (C12) and the wall-clock values (C14) are NOT decided; what is decided are the comparisons,
the flush tables and the provenance of results, each a necessary condition of the property."""
from ..core import rule, Inconclusive
from ..facts import AnchorMissing, SE, is_local
from ..symex import render, strip
from ..pathcond import show_dnf, FLIP, ALL
from .. import q
from .timeorder import bool_closures, closure_cmp, cmp_rel_of
from .state import c05_r4
from .aggr import c13_r3

WM = 'renoir::operator::window::WindowManager'
CWM = 'renoir::operator::window::descr::count::CountWindowManager'
PTM = 'renoir::operator::window::descr::processing_time::ProcessingTimeWindowManager'
SWM = 'renoir::operator::window::descr::session::SessionWindowManager'
WRES = 'renoir::operator::window::WindowResult'


def edges(dnf, name='arg2'):      # WindowManager::process(&mut self, el): the element is the second parameter
    vs = set()
    for c in dnf:
        for a in c:
            if a[0] == 'is' and a[1] == name:
                vs.add(a[2])
            if a[0] == 'isin' and a[1] == name:
                vs |= set(a[2])
    return vs


@rule('C12', 'R1', 'a count window is emitted exactly when its oldest slot reaches `size` elements, oldest slot first')
def c12_r1(ctx):
    facts = ctx.facts
    pr = facts.method(CWM, 'process', trait=WM)
    sym = q.sym(facts, pr)
    pops = [(bi, t) for bi, t in pr.calls() if (t['callee'].get('path') or '').endswith('VecDeque::<T, A>::pop_front')]
    data_pops = []
    for bi, t in pops:
        dnf = q.cond_of_block(facts, pr, bi)
        if edges(dnf) & {'Item', 'Timestamped'}:
            data_pops.append((bi, t, dnf))
    if not data_pops:
        raise AnchorMissing('CountWindowManager::process: no pop_front on the data edge')
    for bi, t, dnf in data_pops:
        rels = []
        for c in dnf:
            for a in c:
                if a[0] == 'cmp' and 'count' in (a[1] + a[2]) and 'self.size' in (a[1] + a[2]):
                    first = 'count' in a[1]
                    rels.append(a[3] if first else frozenset(FLIP[r] for r in a[3]))
        ctx.inst('Count::process|emit', {'at': t['at'], 'emitted iff count {%s} size' % ','.join(sorted(''.join(sorted(r)) for r in rels)): True,
                                         'conditions': show_dnf(dnf)[:2]})
        if not rels or not all(r in (frozenset(['=']), frozenset(['=', '>'])) for r in rels):
            ctx.viol('%s|emit-trigger' % pr.path, t['at'],
                     'a count window is emitted under count {%s} size: it must be emitted exactly when its N-th element arrives'
                     % [''.join(sorted(r)) for r in rels], None)
        # the slot whose count is tested is the front one, and the front one is what is popped
        if not any('Index::index(&self.ws, 0_usize)' in a[1] + a[2] or 'front' in a[1] + a[2] for c in dnf for a in c if a[0] == 'cmp'):
            ctx.viol('%s|emit-not-oldest' % pr.path, t['at'], 'the slot tested for completeness is not the oldest one', None)
    lifo = [t for bi, t in pr.calls() if (t['callee'].get('path') or '').rsplit('::', 1)[-1] in ('pop_back', 'push_front')]
    if lifo:
        ctx.viol('%s|not-fifo' % pr.path, lifo[0]['at'], 'count window slots are not handled oldest-first', None)


@rule('C12', 'R2', 'end of iteration: nothing is emitted in exact mode, only the oldest non-empty incomplete group otherwise; all slots are dropped')
def c12_r2(ctx):
    facts = ctx.facts
    pr = facts.method(CWM, 'process', trait=WM)
    sym = q.sym(facts, pr)
    pops = [(bi, t) for bi, t in pr.calls() if (t['callee'].get('path') or '').endswith('VecDeque::<T, A>::pop_front')]
    end_pops = [(bi, t, q.cond_of_block(facts, pr, bi)) for bi, t in pops]
    end_pops = [(bi, t, d) for bi, t, d in end_pops if edges(d) & {'FlushAndRestart', 'Terminate'}]
    if not end_pops:
        raise AnchorMissing('CountWindowManager::process: no pop_front on the end-of-iteration edge')
    for bi, t, dnf in end_pops:
        ctx.inst('Count::process|final flush', {'at': t['at'], 'conditions': show_dnf(dnf)})
        if not q.cond_has(dnf, lambda a: a[0] == 'bool' and 'exact' in a[1] and a[2] is False):
            ctx.viol('%s|exact-flush' % pr.path, t['at'],
                     'an incomplete group can be emitted at the end of an iteration in exact mode (conditions: %s)' % show_dnf(dnf), None)
    # the non-empty filter
    fl = bool_closures(facts, pr, '::filter')
    okf = False
    for bi, t, g in fl:
        d, neg = closure_cmp(facts, g)
        if d is not None:
            rel, a, b = cmp_rel_of(d, lambda x: x.endswith('.count'))
            if rel is not None and neg:
                rel = frozenset(ALL - set(rel))
            ctx.inst('Count::process|non-empty filter', {'kept iff count {%s} %s' % (''.join(sorted(rel)) if rel else '?', b): True})
            if rel == frozenset(['>']) and b.startswith('0_'):
                okf = True
    if not okf:
        ctx.viol('%s|empty-group' % pr.path, pr.at, 'the final incomplete group is not filtered by count > 0: an empty result could be emitted', None)
    drains = [(bi, t) for bi, t in pr.calls() if (t['callee'].get('path') or '').endswith('::drain') and any('RangeFull' in g for g in t['callee'].get('gargs', []))]
    okd = any(edges(q.cond_of_block(facts, pr, bi)) >= {'FlushAndRestart', 'Terminate'} and
              all(not [a for a in c if a[0] in ('bool', 'cmp')] for c in q.cond_of_block(facts, pr, bi)) for bi, t in drains)
    ctx.inst('Count::process|drop all slots', {'unconditional drain(..) at the end of the iteration': okd})
    if not okd:
        ctx.viol('%s|slots-kept' % pr.path, pr.at, 'the slots are not unconditionally dropped at the end of an iteration', None)


@rule('C12', 'R3', 'groups never mix keys or iterations (per-key managers, no slot kept across an iteration end)')
def c12_r3(ctx):
    c13_r3(ctx)
    c05_r4(ctx)


def half_open(ctx, facts, pr, name, now_is_arg=False):
    sk = bool_closures(facts, pr, '::skip_while')
    tk = bool_closures(facts, pr, '::take_while')
    if not sk or not tk:
        raise AnchorMissing('%s::process must select slots with skip_while / take_while' % name)
    d, neg = closure_cmp(facts, sk[0][2])
    rel, a, b = cmp_rel_of(d, lambda x: x.endswith('.end')) if d else (None, '', '')
    if rel is not None and neg:
        rel = frozenset(ALL - set(rel))
    ctx.inst('%s|skip_while' % name, {'skipped iff end {%s} now' % (''.join(sorted(rel)) if rel else '?'): True})
    if rel != frozenset(['<', '=']):
        ctx.viol('%s|interval-upper' % pr.path, sk[0][1]['at'],
                 'a slot is skipped iff end {%s} now; the half-open interval [start, end) requires end <= now: otherwise an element arriving '
                 'exactly on a boundary is put into two tumbling windows or into none' % (''.join(sorted(rel)) if rel else '?'), None)
    d, neg = closure_cmp(facts, tk[0][2])
    rel, a, b = cmp_rel_of(d, lambda x: x.endswith('.start')) if d else (None, '', '')
    if rel is not None and neg:
        rel = frozenset(ALL - set(rel))
    ctx.inst('%s|take_while' % name, {'taken iff start {%s} now' % (''.join(sorted(rel)) if rel else '?'): True})
    if rel != frozenset(['<', '=']):
        ctx.viol('%s|interval-lower' % pr.path, tk[0][1]['at'], 'a slot is taken iff start {%s} now (must be start <= now)' % (''.join(sorted(rel)) if rel else '?'), None)


@rule('C14', 'R1', 'processing-time windows: half-open assignment interval, release only of slots that can no longer receive elements, slots on the slide grid')
def c14_r1(ctx):
    facts = ctx.facts
    pr = facts.method(PTM, 'process', trait=WM)
    half_open(ctx, facts, pr, 'ProcessingTime::process')
    pps = bool_closures(facts, pr, '::partition_point')
    if not pps:
        raise AnchorMissing('ProcessingTimeWindowManager::process has no partition_point release')
    d, neg = closure_cmp(facts, pps[0][2])
    rel, a, b = cmp_rel_of(d, lambda x: x.endswith('.end')) if d else (None, '', '')
    if rel is not None and neg:
        rel = frozenset(ALL - set(rel))
    ctx.inst('ProcessingTime::process|release', {'released iff end {%s} now' % (''.join(sorted(rel)) if rel else '?'): True})
    if rel is None or '>' in rel:
        ctx.viol('%s|early-release' % pr.path, pps[0][1]['at'],
                 'a processing-time window is released while end {%s} now: it can still receive elements (assignment takes slots with '
                 'end > now), which would then be lost' % (''.join(sorted(rel)) if rel else '?'), None)
    sym = q.sym(facts, pr)
    news = q.calls_suffix(pr, 'processing_time::Slot::<A>::new')
    if not news:
        raise AnchorMissing('ProcessingTimeWindowManager::process does not create slots')
    for bi, t in news:
        sts = q.alternatives(facts, pr, sym.operand(t['args'][1]))
        ens = q.alternatives(facts, pr, sym.operand(t['args'][2]), depth=1)
        ctx.inst('ProcessingTime::process|Slot::new', {'start': [x[:100] for x in sts], 'end': [x[:100] for x in ens]})
        if not all('self.size' in en for en in ens):
            ctx.viol('%s|slot-end' % pr.path, t['at'], 'a processing-time slot is created with end = `%s` (must be start + size)' % ens[0][:80], None)
        if not any('self.slide' in st for st in sts):
            ctx.viol('%s|slot-start' % pr.path, t['at'], 'consecutive processing-time slots do not start `slide` apart (start = `%s`)' % sts[0][:80], None)


@rule('C14', 'R2', 'all pending windows are flushed at the end of the iteration; only non-empty windows produce results')
def c14_r2(ctx):
    facts = ctx.facts
    pr = facts.method(PTM, 'process', trait=WM)
    drains = [(bi, t) for bi, t in pr.calls() if (t['callee'].get('path') or '').endswith('::drain')]
    full = [(bi, t) for bi, t in drains if any('RangeFull' in g for g in t['callee'].get('gargs', []))]
    okf = any(edges(q.cond_of_block(facts, pr, bi)) >= {'FlushAndRestart', 'Terminate'} for bi, t in full)
    ctx.inst('ProcessingTime::process|final drain', {'drain(..) on FlushAndRestart/Terminate': okf})
    if not okf:
        ctx.viol('%s|no-final-drain' % pr.path, pr.at, 'pending processing-time windows are not all flushed at the end of the iteration', None)
    from .timeorder import release_chains
    if release_chains(ctx, facts, pr, 'ProcessingTime::process') < len(drains):
        raise AnchorMissing('ProcessingTimeWindowManager::process: a drain does not feed an iterator chain the rule can follow')
    # session windows: the data edge feeds exactly one slot; results come from taking that slot
    sp = facts.method(SWM, 'process', trait=WM)
    fam = facts.family(sp)
    procs = []
    for g in fam:
        s2 = q.sym(facts, g)
        for bi, t in g.calls():
            if (t['callee'].get('path') or '').endswith('WindowAccumulator::process'):
                procs.append((g, bi, t))
    ctx.inst('Session::process|accumulate', {'acc.process sites': [t['at'] for _, _, t in procs]})
    if len(procs) != 1:
        ctx.viol('%s|accumulate-sites' % sp.path, sp.at, 'a session window must add an element to exactly one slot (found %d acc.process sites)' % len(procs), None)
    else:
        g, bi, t = procs[0]
        dnf = q.cond_of_block(facts, g, bi)
        if not edges(dnf) <= {'Item', 'Timestamped'} or not edges(dnf):
            ctx.viol('%s|accumulate-edge' % sp.path, t['at'], 'the session accumulator is fed on a non-data edge', None)
        extra = [a for c in dnf for a in c if a[0] in ('cmp', 'bool')]
        if extra:
            ctx.viol('%s|accumulate-conditional' % sp.path, t['at'], 'an element is added to the session slot only under %s: other elements are lost' % show_dnf([frozenset(extra)]), None)
    outs = []
    for g in fam:
        s2 = q.sym(facts, g)
        for bi, s in q.aggregates(g, WRES, 'Item'):
            outs.append(render(strip(s2.operand(s['rv']['o'][0]))))
    ctx.inst('Session::process|results', {'result payloads': [o[:100] for o in outs]})
    if not outs or not all('output(' in o and ('take(&self.w)' in o or 'self.w' not in o) for o in outs):
        ctx.viol('%s|result-source' % sp.path, sp.at,
                 'a session result is not produced by taking the slot out of the manager: the same elements would be emitted again', None)


@rule('C14', 'R3', 'windows never mix keys or iterations (per-key managers, no slot kept across an iteration end)')
def c14_r3(ctx):
    c13_r3(ctx)
    c05_r4(ctx)


def _index_terms(term):
    """(collection, index) of every Index::index / IndexMut::index_mut call inside a symex term"""
    out = []

    def walk(x):
        if isinstance(x, tuple):
            if x and x[0] == 'call' and isinstance(x[1], str) and (x[1].endswith('Index::index') or x[1].endswith('IndexMut::index_mut')) and len(x[2]) == 2:
                out.append((render(strip(x[2][0])), x[2][1]))
            for y in x:
                walk(y)
    walk(term)
    return out


def _find(term, pred):
    res = []

    def walk(x):
        if isinstance(x, tuple):
            if pred(x):
                res.append(x)
            for y in x:
                walk(y)
    walk(term)
    return res


@rule('C12', 'R4', 'every element is accumulated into a prefix of the open slots (oldest first), once per slot, and a slot\'s count counts exactly its accumulations')
def c12_r4(ctx):
    """`count == size` (C12.R1) means "the slot holds N elements" only if count is incremented exactly where the accumulator is fed,
    and the oldest slot receives every element only if the updated slots are 0..k. Both are shape facts; k itself is not decided."""
    facts = ctx.facts
    pr = facts.method(CWM, 'process', trait=WM)
    fam = facts.family(pr)       # `process` with its private helpers inlined, and their closures
    sites = []
    for g in fam:
        s2 = q.sym(facts, g)
        for bi, t in g.calls():
            if (t['callee'].get('path') or '').endswith('WindowAccumulator::process'):
                sites.append((g, s2, bi, t))
    if not sites:
        raise AnchorMissing('no WindowAccumulator::process call in CountWindowManager')
    for g, s2, bi, t in sites:
        recv = s2.operand(t['args'][0])
        idx = [(c, i) for c, i in _index_terms(recv) if c.endswith('self.ws')]
        if not idx:
            ctx.viol('%s|accumulate-target' % g.path, t['at'], 'the accumulator that is fed is not a slot of self.ws (%s)' % render(strip(recv))[:80], None)
            continue
        idx_term = idx[0][1]
        idx_s = render(strip(idx_term))
        # count increments in the same function
        incs = []
        for b2, blk in enumerate(g.blocks):
            for st in blk['s']:
                if st['k'] == 'assign' and any(isinstance(e, list) and e[0] == 'f' and e[2] == 'count' for e in st['lhs'][1:]):
                    rv = strip(s2.rvalue(st['rv']))
                    r = render(rv)
                    tgt = [i for c, i in _index_terms(s2.place(st['lhs'])) if c.endswith('self.ws')] or \
                          [i for c, i in _index_terms(rv) if c.endswith('self.ws')]
                    incs.append((b2, st, r, tgt))
        ctx.inst('Count|accumulate|%s' % g.name, {'at': t['at'], 'slot index': idx_s[:100], 'count updates': [(x[2][:80], [render(strip(y))[:60] for y in x[3]]) for x in incs]})
        good = [x for x in incs if x[2].startswith('AddWithOverflow(') and x[2].endswith('.count, 1_usize).0') and any(q.term_match(idx_term, y) for y in x[3])]
        if len(good) != 1 or len(incs) != 1:
            ctx.viol('%s|count-accounting' % g.path, t['at'],
                     'the slot fed by acc.process must have its count incremented by exactly one, once, on the same index '
                     '(found updates %s for index `%s`)' % ([(x[2][:60], [render(strip(y))[:40] for y in x[3]]) for x in incs], idx_s[:60]), None)
            continue
        ib = good[0][0]
        # control-equivalent: whenever one executes the other does (dominance one way, post-dominance the other way)
        together = (ib == bi) or (g.dominates(ib, bi) and g.post_dominates(bi, ib)) or (g.dominates(bi, ib) and g.post_dominates(ib, bi))
        if not together:
            ctx.viol('%s|count-accounting-conditional' % g.path, t['at'],
                     'the count increment and the accumulation of a slot are not both unconditional in %s: the count can drift from the '
                     'number of accumulated elements' % g.name, None)
        # where does the index come from
        origins = []
        params = {v: k for k, v in enumerate(g.arg_names())} if hasattr(g, 'arg_names') else {}
        if idx_term and idx_term[0] == 'arg':
            argi = idx_term[1]
            for h in fam:
                s3 = q.sym(facts, h)
                for b3, t3 in h.calls():
                    if (t3['callee'].get('resolved') or t3['callee'].get('path') or '') == g.path or (t3['callee'].get('path') or '').endswith('::' + g.name):
                        origins.append((h, b3, t3, s3.operand(t3['args'][argi - 1])))
        else:
            origins.append((g, bi, t, idx_term))
        if not origins and g.kind == 'closure':
            # the index is the parameter of a closure handed to an element-wise adapter: `(0..k).for_each(|i| ..)` - the indexes are
            # the elements of the iterator the adapter is applied to
            gp = getattr(g, 'path', None)
            for h in fam:
                s3 = q.sym(facts, h)
                for b3, t3 in h.calls():
                    if (t3['callee'].get('path') or '') not in ('std::iter::Iterator::for_each', 'std::iter::Iterator::try_for_each'):
                        continue
                    if any(a_[0] != 'k' and is_local(a_[1]) and h.locals[a_[1][0]].get('closure') == gp for a_ in t3['args'][1:]):
                        origins.append((h, b3, t3, s3.operand(t3['args'][0])))
        if not origins:
            raise AnchorMissing('no call site of %s found' % g.name)
        for h, b3, t3, term in origins:
            rng = _find(term, lambda x: x and x[0] == 'agg' and isinstance(x[1], tuple) and x[1][0] == 'adt' and x[1][1].startswith('std::ops::Range'))
            shown = render(strip(term))[:160]
            verdict = 'unknown'
            if rng:
                r = rng[0]
                kind = r[1][1]
                start = render(strip(r[2][0])) if r[2] else None
                if kind == 'std::ops::Range' or kind == 'std::ops::RangeInclusive':
                    verdict = 'prefix' if start == '0_usize' else 'not-prefix'
                elif kind == 'std::ops::RangeTo' or kind == 'std::ops::RangeToInclusive':
                    verdict = 'prefix'
                else:
                    verdict = 'not-prefix'
            elif render(strip(term)) == '0_usize':
                verdict = 'oldest-only'
            ctx.inst('Count|updated slots|%s' % t3['at'], {'index': shown, 'classified': verdict})
            if verdict == 'not-prefix':
                ctx.viol('%s|updated-slots' % h.path, t3['at'],
                         'the slots that receive an element are `%s`: not a prefix starting at the oldest slot, so the oldest window misses '
                         'elements of its group' % shown, None)
            elif verdict == 'unknown':
                ctx.note('C12.R4: index expression `%s` not classified (neither a range nor a constant)' % shown)
            # the update happens for every data element: only the loop condition and the data edge guard it
            dnf = q.cond_of_block(facts, h, b3)

            def structural(a):
                # the data edge, the loop over the slots and the slot-allocation loop are not conditions on the element
                return (a[0] in ('is', 'isin') and (a[1] == 'arg2' or 'Iterator::next' in a[1] or 'next(' in a[1])) or \
                    (a[0] == 'cmp' and 'len(' in a[1] + a[2])
            uncond = q.covers_all(dnf, ignore=structural)
            extra = [] if uncond else sorted({show_dnf([[a]])[0] for c in dnf for a in c if not structural(a)})
            if h.path == pr.path and extra:
                ctx.viol('%s|update-conditional' % h.path, t3['at'],
                         'a data element is accumulated only under conditions on %s: other elements are dropped from their groups' % extra, None)


@rule('C14', 'R4', 'a session closed by the gap check is emitted whatever element triggered the check (the taken slot always reaches the return value)')
def c14_r4(ctx):
    """SessionWindowManager::process first takes an expired slot out of the manager and keeps its output in a local; that local
    must flow into the returned value on every path, otherwise the session is in neither the manager nor the output (lost window)."""
    facts = ctx.facts
    sp = facts.method(SWM, 'process', trait=WM)
    s2 = q.sym(facts, sp)
    holders = []     # (local, block) assigned a WindowResult built from take(self.w)
    for bi, blk in enumerate(sp.blocks):
        for st in blk['s']:
            if st['k'] == 'assign' and len(st['lhs']) == 1 and st['lhs'] != [0]:
                term = s2.rvalue(st['rv'])
                r = render(strip(term))
                if r.startswith('Option::Some(') and 'WindowResult' in r and 'take(&self.w)' in r:
                    holders.append((st['lhs'][0], bi, st))
    # keep the outermost holder only (the Option local), not its parts
    if not holders:
        ctx.inst('Session::process|expired-result holder', {'found': False}, nontrivial=False)
        ctx.note('C14.R4: no local holds the result of an expired session (shape not recognised); clause not decided on this tree')
        return
    for R, rb, st in holders:
        reach = sp.reachable_from(rb)
        writes = []
        for bi in sorted(reach | {rb}):
            blk = sp.blocks[bi]
            for s_ in blk['s']:
                if s_['k'] == 'assign' and s_['lhs'] == [0]:
                    writes.append((bi, s_['at'], s2.rvalue(s_['rv'])))
            t = blk['t']
            if t['t'] == 'call' and t['dest'] == [0]:
                writes.append((bi, t['at'], ('call', t['callee'].get('path'), tuple(s2.operand(a) for a in t['args']))))
        ctx.inst('Session::process|expired result _%d' % R, {'assigned at': st['at'], 'return-value writes after it': [(at, render(strip(tm))[:80]) for _, at, tm in writes]})
        if not writes:
            raise AnchorMissing('SessionWindowManager::process: no return-value write after the gap check')
        for bi, at, tm in writes:
            uses = _find(tm, lambda x: x and x[0] in ('phi', 'local') and len(x) > 1 and x[1] == R)
            if not uses:
                dnf_ = q.cond_of_block(facts, sp, bi)
                # `match ret { Some(x) => Some(x), None => <flush the open session> }`: on this path the holder is known to be None -
                # nothing was taken out of the manager, so nothing can be lost
                if dnf_ and all(any(a[0] == 'is' and a[2] == 'None' and ('phi_%d' % R) == a[1] for a in c) for c in dnf_):
                    continue
                # the same fact read from the abstract state: in every state in which this block is entered the holder is None
                try:
                    from ..facts import pkey as _pk
                    g_ = q.pe(facts, sp).it.explore(0, {})
                    vals_ = [g_.pre_term[n_].get(_pk([R])) for n_ in g_.pre_term if g_.block(n_) == bi]
                    if vals_ and all(v_ == ('v', frozenset(['None'])) for v_ in vals_):
                        continue
                except Exception:
                    pass
                ed = sorted(edges(q.cond_of_block(facts, sp, bi)))
                ctx.viol('%s|expired-session-dropped|%s' % (sp.path, '+'.join(ed) or 'other'), at,
                         'on the %s edge SessionWindowManager::process returns `%s`, which does not contain the result of the session the gap '
                         'check has just taken out of the manager: that window is lost' % ('/'.join(ed) or 'remaining', render(strip(tm))[:60]), None)
