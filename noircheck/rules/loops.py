"""Loop / state-lock typestate rules: C10.R1, R2, R3, R5, R7 and C04.R6 (E3 who-calls + dominance, E4 tables)."""
from ..core import rule, Inconclusive
from ..facts import AnchorMissing, SE, is_local
from ..symex import render, strip
from ..pathcond import show_dnf, FLIP
from .. import q

IT = 'renoir::operator::iteration'
SREF_SET = IT + '::IterationStateRef::<State>::set'
SH_SET = IT + '::IterationStateHandle::<T>::set'
LOCK = IT + '::IterationStateLock'
HANDLER = IT + '::state_handler::IterationStateHandler'
REPLAY = IT + '::replay::Replay'
ITERATE = IT + '::iterate::Iterate'
LEADER = IT + '::leader::IterationLeader'
IEND = IT + '::iteration_end::IterationEnd'
OP = 'renoir::operator::Operator'


def callers_roots(facts, path):
    out = set()
    for f, bi in facts.callers_of(path):
        out.add(f.root if f.kind == 'closure' else f.path)
    return out


@rule('C10', 'R1', 'state typestate: only wait_sync_state may write the loop state or unlock; only Replay/Iterate lock it; the setters stay unsafe and private')
def c10_r1(ctx):
    facts = ctx.facts
    table = [
        (SREF_SET, {SH_SET}, 'IterationStateRef::set'),
        (SH_SET, {HANDLER + '::<State>::wait_sync_state'}, 'IterationStateHandle::set'),
        (LOCK + '::unlock', {HANDLER + '::<State>::wait_sync_state'}, 'IterationStateLock::unlock'),
        (LOCK + '::lock', {HANDLER + '::<State>::lock'}, 'IterationStateLock::lock'),
    ]
    for callee, allowed, name in table:
        facts.fn(callee)
        got = callers_roots(facts, callee)
        ctx.inst('who-calls|' + name, {'callee': callee, 'callers': sorted(got), 'allowed': sorted(allowed)})
        for g in sorted(got - allowed):
            ctx.viol('%s|foreign-caller|%s' % (name, g), facts.fn(g, required=False).at if facts.fn(g, required=False) else '-',
                     '%s is called from %s: the loop state may only be written / unlocked by wait_sync_state (after every local replica '
                     'finished the round) and locked through IterationStateHandler::lock' % (name, g), None)
        if not got:
            ctx.viol('%s|never-called' % name, facts.fn(callee).at, '%s is never called' % name, None)
    hl = callers_roots(facts, HANDLER + '::<State>::lock')
    ok_prefix = (REPLAY, ITERATE)
    ctx.inst('who-calls|IterationStateHandler::lock', {'callers': sorted(hl)})
    for g in hl:
        if not any(p in g for p in ('replay::Replay', 'iterate::Iterate')):
            ctx.viol('IterationStateHandler::lock|foreign-caller|%s' % g, '-', 'the loop state lock is taken by %s (only the loop heads may)' % g, None)
    for p in (SREF_SET, SH_SET):
        f = facts.fn(p)
        ctx.inst('unsafe+private|' + p.split('::')[-2], {'unsafe': f.is_unsafe, 'pub': f.is_pub}, nontrivial=False)
        if not f.is_unsafe or f.is_pub:
            ctx.viol('%s|exposed' % p, f.at,
                     '%s must stay `unsafe` and non-public (found unsafe=%s, pub=%s): user code inside a loop body holds an '
                     'IterationStateHandle and could otherwise write the state while replicas read it' % (p, f.is_unsafe, f.is_pub), None)


@rule('C10', 'R2', 'state swap order in wait_sync_state: set (leader) -> barrier wait (all local replicas) -> unlock (leader)')
def c10_r2(ctx):
    facts = ctx.facts
    f = facts.fn(HANDLER + '::<State>::wait_sync_state')
    sets = q.calls(f, SH_SET)
    bars = q.calls(f, 'std::sync::Barrier::wait')
    unl = q.calls(f, LOCK + '::unlock')
    if not sets or not bars or not unl:
        raise AnchorMissing('wait_sync_state must call IterationStateHandle::set, Barrier::wait and IterationStateLock::unlock')
    ctx.inst('wait_sync_state|order', {'set': [t['at'] for _, t in sets], 'barrier': [t['at'] for _, t in bars], 'unlock': [t['at'] for _, t in unl]})
    sb, bb, ub = sets[0][0], bars[0][0], unl[0][0]
    rets = f.return_blocks()
    if not all(f.dominates(bb, r) for r in rets):
        ctx.viol('%s|barrier-skipped' % f.path, f.at, 'wait_sync_state can return without waiting on the local barrier', None)
    if bb in f.reachable_from(0, avoid=[]) and sb in f.reachable_from(bb):
        ctx.viol('%s|set-after-barrier' % f.path, sets[0][1]['at'],
                 'the loop state is written after the barrier: replicas released by the barrier could read the old state or race with the write', None)
    if not f.dominates(bb, ub):
        ctx.viol('%s|unlock-before-barrier' % f.path, unl[0][1]['at'],
                 'the state lock is released on a path that has not passed the barrier: a Start block could let elements of the next '
                 'round through before every local replica agreed that the state is installed', None)
    for name, b in (('set', sb), ('unlock', ub)):
        dnf = q.cond_of_block(facts, f, b)
        if not q.cond_has(dnf, lambda a: a[0] == 'bool' and 'is_local_leader' in a[1] and a[2] is True):
            ctx.viol('%s|%s-not-leader-only' % (f.path, name), f.at, '`%s` in wait_sync_state is not restricted to the local leader (conditions: %s)' % (name, show_dnf(dnf)), None)
        # ... and by nothing else: the leader installs the state and releases the lock after *every* round (the state of the
        # last round is what the loop outputs, and nested loops restart from it)
        leader = lambda a: a[0] == 'bool' and 'is_local_leader' in a[1] and a[2] is True   # noqa: E731
        uncond = q.covers_all(dnf, ignore=leader)
        extra = [] if uncond else sorted({q.show_dnf([[a]])[0] for c in dnf for a in c if not leader(a)})
        ctx.inst('wait_sync_state|%s guard' % name, {'conditions': show_dnf(dnf)})
        if extra:
            ctx.viol('%s|%s-conditional' % (f.path, name), f.at,
                     '`%s` in wait_sync_state also depends on %s: on the rounds where that is false the local leader does not '
                     '%s, so the replicas of this host read a state that is not the one produced by the previous round'
                     % (name, extra, 'install the new state' if name == 'set' else 'release the state lock'), None)
    # the barrier is sized by the number of local replicas
    fam = facts.family(f)
    sized = False
    for g in fam:
        s2 = q.sym(facts, g)
        for bi, t in g.calls():
            if (t['callee'].get('path') or '') == 'std::sync::Barrier::new':
                a = render(strip(s2.operand(t['args'][0])))
                ctx.inst('wait_sync_state|barrier-size', {'size': a})
                if 'num_local_replicas' in a:
                    sized = True
    if not sized:
        ctx.viol('%s|barrier-size' % f.path, f.at, 'the state barrier is not sized with num_local_replicas', None)


def lock_before_far(ctx, fn, name):
    """every place where `fn` can hand a FlushAndRestart downstream is preceded by state.lock()"""
    facts = ctx.facts
    locks = q.calls(fn, HANDLER + '::<State>::lock')
    ctx.inst('%s|lock sites' % name, {'function': fn.path, 'lock calls': [t['at'] for _, t in locks]})
    return locks


@rule('C10', 'R3', 'every end of a round locks the state before FlushAndRestart leaves the loop head (Replay, Iterate)')
def c10_r3(ctx):
    """Must-pass-through on the exploded graph of one activation of the loop head's `next` (private helpers inlined, so the rule does
    not depend on how `next` is split into helpers): no return whose value may be FlushAndRestart is reachable from the entry without
    executing IterationStateHandler::lock. Return values are variant sets computed by the abstract interpreter (payload of
    Option::unwrap, `?`, matches! and match arms are followed); an untracked value counts as "may be FlushAndRestart"."""
    from ..opsum import OpInterp, se_summaries
    from ..absint import Bound
    facts = ctx.facts
    for adt in (REPLAY, ITERATE):
        name = adt.split('::')[-1]
        nx = facts.method(adt, 'next', trait=OP)
        locks = {bi: t for bi, t in nx.calls() if (t['callee'].get('path') or '') == HANDLER + '::<State>::lock'}
        it = OpInterp(facts, nx, se_summaries(facts), protocol=False)
        try:
            g = it.explore(0, {})
        except Bound as e:
            raise Inconclusive(str(e))
        free = g.reachable([g.root], avoid=lambda n: g.block(n) in locks)
        rets = g.return_nodes()
        far_locked = far_free = other = 0
        bad = None
        for n in rets:
            rv = g.ret_value(n)
            may_far = not (rv and rv[0] == 'v') or 'FlushAndRestart' in rv[1]
            if not may_far:
                other += 1
            elif n in free:
                far_free += 1
                bad = bad or n
            else:
                far_locked += 1
        ctx.inst('%s::next|lock before FlushAndRestart' % name,
                 {'function': nx.path, 'helpers inlined': [x.rsplit('::', 1)[1] for x in getattr(nx, 'inlined_from', [])],
                  'lock sites': [t['at'] for t in locks.values()], 'return states': len(rets),
                  'FlushAndRestart returns behind a lock': far_locked, 'without': far_free, 'other returns': other})
        if not locks or far_locked == 0:
            raise AnchorMissing('%s::next: no FlushAndRestart return behind IterationStateHandler::lock found' % name)
        if bad is not None:
            p_ = g.path_to(bad, [g.root])
            ctx.viol('%s|far-without-lock' % nx.path, nx.at,
                     '%s::next can hand a FlushAndRestart downstream without locking the loop state first: blocks of the body could start '
                     'the next round against the previous state' % name, {'path': g.describe_path(p_) if p_ else None})
        # both loop heads pass the leader's feedback through wait_sync_state before the next round
        ws = q.calls(nx, HANDLER + '::<State>::wait_sync_state')
        rc = [(bi, t) for bi, t in nx.calls() if (t['callee'].get('path') or '').endswith('NetworkReceiver::<In>::recv')
              or (t['callee'].get('path') or '').endswith('::select') or (t['callee'].get('path') or '').endswith('::wait_update')]
        ctx.inst('%s::next|sync' % name, {'state received at': [t['at'] for _, t in rc][:4], 'wait_sync_state': [t['at'] for _, t in ws]})
        if not ws:
            ctx.viol('%s|no-sync' % nx.path, nx.at, '%s::next does not pass the new state through wait_sync_state at the end of a round' % name, None)


@rule('C10', 'R5', 'leader accounting: one delta per IterationEnd replica per round, feedback to every loop head, stop iff !condition || index >= max')
def c10_r5(ctx):
    facts = ctx.facts
    # evaluated on IterationLeader::next with its private helpers (process_updates, final_result) inlined
    pu = facts.method(LEADER, 'next', trait=OP)
    sym = q.sym(facts, pu)
    decs = []
    for bi, blk in enumerate(pu.blocks):
        if blk['cleanup']:
            continue
        for s in blk['s']:
            if s['k'] == 'assign' and s['rv']['r'] == 'bin' and s['rv']['op'] in ('SubWithOverflow', 'Sub'):
                decs.append((bi, s, render(strip(sym.rvalue(s['rv'])))))
    ctx.inst('process_updates|missing_state_updates', {'decrements': [(s['at'], d) for _, s, d in decs]})
    if len(decs) != 1 or '1_usize' not in decs[0][2]:
        ctx.viol('%s|decrement' % pu.path, pu.at, 'process_updates must count down the expected deltas by one at exactly one site', None)
    else:
        dnf = q.cond_of_block(facts, pu, decs[0][0])
        if not q.cond_has(dnf, lambda a: a[0] == 'is' and a[2] == 'Item'):
            ctx.viol('%s|decrement-edge' % pu.path, decs[0][1]['at'],
                     'the leader counts a message that is not an Item as a state delta (conditions: %s): the round would close before '
                     'every replica reported' % show_dnf(dnf), None)
        gf = [bi for bi, t in pu.calls() if t['callee'].get('indirect') or (t['callee'].get('path') or '').startswith('std::ops::Fn')]
        if not any(pu.dominates(decs[0][0], b) or pu.dominates(b, decs[0][0]) for b in gf):
            ctx.viol('%s|no-global-fold' % pu.path, pu.at, 'the leader does not apply global_fold on the delta edge', None)
    init = [render(strip(sym.rvalue(s['rv']))) for blk in pu.blocks for s in blk['s'] if s['k'] == 'assign' and is_local(s['lhs']) and s['rv']['r'] == 'use'
            and 'num_receivers' in render(strip(sym.rvalue(s['rv'])))]
    if not init:
        ctx.viol('%s|init' % pu.path, pu.at, 'the number of expected deltas is not initialised from num_receivers', None)
    # Terminate edge returns Some(Terminate)
    terms = [(bi, s) for bi, s in q.aggregates(pu, SE, 'Terminate')]
    okt = any(q.cond_has(q.cond_of_block(facts, pu, bi), lambda a: a[0] == 'is' and a[2] == 'Terminate') for bi, s in terms)
    ctx.inst('process_updates|terminate', {'Terminate constructions': [s['at'] for _, s in terms]})
    if not okt:
        ctx.viol('%s|terminate' % pu.path, pu.at, 'the leader does not stop when its delta stream terminates', None)
    # final_result: continue <=> condition && index < max
    fr = pu
    fsym = sym
    # the `None` result (= continue) must be guarded by loop_condition() == true AND index < max
    # `None` built as the Option<State> result of the round (not the `None` of process_updates, an Option<StreamElement>)
    nones = [(bi, st) for bi, st in q.aggregates(fr, 'std::option::Option', 'None')
             if is_local(st['lhs']) and fr.locals[st['lhs'][0]]['ty'].startswith('std::option::Option<State')]
    if not nones:
        raise AnchorMissing('IterationLeader::next has no `None` (continue) result of type Option<State>')
    for bi, st in nones:
        dnf = q.cond_of_block(facts, fr, bi)
        ctx.inst('final_result|continue', {'at': st['at'], 'conditions': show_dnf(dnf)})
        okcond = q.cond_has(dnf, lambda a: a[0] == 'bool' and 'loop_condition' in a[1] and a[2] is True)
        okbound = False
        for c in dnf:
            for a in c:
                if a[0] == 'cmp' and 'iteration_index' in (a[1] + a[2]) and 'max_iterations' in (a[1] + a[2]):
                    first = 'iteration_index' in a[1]
                    rel = a[3] if first else frozenset(FLIP[r] for r in a[3])
                    if rel == frozenset(['<']):
                        okbound = True
        if not okcond or not okbound:
            ctx.viol('%s|continue-guard' % fr.path, st['at'],
                     'the loop continues under %s; it must continue exactly when the condition holds AND iteration_index < max_iterations'
                     % show_dnf(dnf), None)
    # next(): feedback to every sender before the result can be returned
    nx = facts.method(LEADER, 'next', trait=OP)
    sends = q.calls(nx, 'renoir::network::network_channel::NetworkSender::<Out>::send')
    ctx.inst('IterationLeader::next|feedback', {'send sites': [t['at'] for _, t in sends]})
    # adapter form of the same loop: `self.feedback_senders.iter().for_each(|s| s.send(..))`
    fe_ok = False
    fe_site = None
    for bi, t in nx.calls():
        if (t['callee'].get('path') or '') != 'std::iter::Iterator::for_each':
            continue
        chain = render(strip(sym.operand(t['args'][0]))) if False else render(strip(q.sym(facts, nx).operand(t['args'][0])))
        for a in t['args'][1:]:
            if a[0] == 'k' or not is_local(a[1]):
                continue
            cd = nx.locals[a[1][0]].get('closure')
            g = facts.fn(cd, required=False) if cd else None
            if g is not None and q.calls(g, 'renoir::network::network_channel::NetworkSender::<Out>::send') and 'feedback_senders' in chain \
                    and not any(x in chain for x in ('::take(', '::skip(', '::filter(', '::step_by(', '::take_while(', '::skip_while(')):
                fe_ok = True
                fe_site = (bi, t)
                ctx.inst('IterationLeader::next|feedback(for_each)', {'at': t['at'], 'over': chain[:100]})
    if not fe_ok and (not sends or not any(bi in nx.reachable_from(s) for bi, _ in sends for s in nx.succ(bi))):
        ctx.viol('%s|feedback-not-broadcast' % nx.path, nx.at, 'the leader does not send the new state to every feedback sender (loop over feedback_senders)', None)
    else:
        # must-pass-through: the send loop post-dominates the point where the round is counted (iteration_index += 1)
        incs = [bi for bi, blk in enumerate(nx.blocks) if not blk['cleanup'] for s_ in blk['s'] if s_['k'] == 'assign' and s_['rv']['r'] == 'bin'
                and s_['rv']['op'] in ('AddWithOverflow', 'Add') and 'iteration_index' in render(strip(q.sym(facts, nx).rvalue(s_['rv'])))]
        if fe_site is not None and not sends:
            heads = [fe_site[0]]
            sends = [fe_site]
        else:
            heads = [bi for bi, t in nx.calls() if (t['callee'].get('path') or '') == 'std::iter::Iterator::next'
                     and sends[0][0] in nx.reachable_from(bi) and bi in nx.reachable_from(sends[0][0])]
        okpd = bool(incs) and bool(heads) and any(nx.post_dominates(h, incs[0]) for h in heads)
        ctx.inst('IterationLeader::next|feedback on every round', {'round counted at block': incs[:1], 'send loop head': heads[:1], 'post-dominates': okpd})
        if not okpd:
            ctx.viol('%s|conditional-feedback' % nx.path, sends[0][1]['at'],
                     'a round can be closed (iteration_index incremented) on a path that does not run the loop sending the state feedback to '
                     'the loop heads: they would wait forever or reuse the previous state', None)
    # the round counter is re-armed on every path that finishes the loop (condition false OR bound reached):
    # nested loops re-run the same leader for every outer round
    nsym = q.sym(facts, nx)
    finish = [(bi, s) for bi, s in q.aggregates(nx, SE, 'Item') if s['lhs'] == [0]]
    zero_next = [bi for bi, si, f, s in q.self_writes(nx, 'iteration_index') if render(strip(nsym.rvalue(s['rv']))) == '0_usize']
    zero_fr = []
    some_fr = [bi for bi, blk in enumerate(fr.blocks) if not blk['cleanup'] for s in blk['s']
               if s['k'] == 'assign' and s['lhs'] == [0] and not (s['rv']['r'] == 'agg' and s['rv'].get('v') == 'None')]
    ok_reset = bool(finish) and all(any(nx.dominates(z, fb) for z in zero_next) for fb, _ in finish)
    ctx.inst('IterationLeader|counter re-armed', {'resets in next': len(zero_next), 'resets in final_result': len(zero_fr), 'finish returns': [s['at'] for _, s in finish]})
    if not finish:
        raise AnchorMissing('IterationLeader::next has no `return Item(state)`')
    if not ok_reset:
        ctx.viol('%s|counter-not-rearmed' % nx.path, finish[0][1]['at'],
                 'iteration_index is not reset to 0 on every path on which the loop finishes (condition false or bound reached): the '
                 'next execution of a nested loop would start counting from the leftover value and stop before its bound/fixed point', None)
    inc = [s for blk in nx.blocks for s in blk['s'] if s['k'] == 'assign' and s['rv']['r'] == 'bin' and s['rv']['op'] in ('AddWithOverflow', 'Add')
           and 'iteration_index' in render(strip(q.sym(facts, nx).rvalue(s['rv'])))]
    if len(inc) != 1:
        ctx.viol('%s|index' % nx.path, nx.at, 'iteration_index must be incremented exactly once per round (found %d sites)' % len(inc), None)
    # IterationEnd: default delta iff no item was received in the round
    ie = facts.method(IEND, 'next', trait=OP)
    isym = q.sym(facts, ie)
    defs = [(bi, t) for bi, t in ie.calls() if (t['callee'].get('path') or '') == 'std::default::Default::default']
    ctx.inst('IterationEnd::next|default-delta', {'Default::default sites': [t['at'] for _, t in defs]})
    okd = False
    for bi, t in defs:
        dnf = q.cond_of_block(facts, ie, bi)
        if q.cond_has(dnf, lambda a: a[0] == 'is' and a[2] == 'FlushAndRestart') and \
                q.cond_has(dnf, lambda a: a[0] == 'bool' and 'has_received_item' in a[1] and a[2] is False):
            okd = True
    if not okd:
        ctx.viol('%s|default-delta' % ie.path, ie.at,
                 'IterationEnd must send a default delta exactly when a round ends without any item (FlushAndRestart && !has_received_item): '
                 'otherwise the leader waits forever for that replica, or counts it twice', None)
    resets = [s for bi, si, f, s in q.self_writes(ie, 'has_received_item') if render(isym.rvalue(s['rv'])) == 'false']
    if not resets:
        ctx.viol('%s|flag-reset' % ie.path, ie.at, 'has_received_item is not reset at the end of a round', None)


@rule('C04', 'R6', 'loop anti-deadlock idiom: Iterate::wait_update selects over state and input while an input receiver exists')
def c04_r6(ctx):
    facts = ctx.facts
    wu = facts.method(ITERATE, 'wait_update')
    sel = [(bi, t) for bi, t in wu.calls() if (t['callee'].get('path') or '').endswith('::select')]
    rcv = [(bi, t) for bi, t in wu.calls() if (t['callee'].get('path') or '').endswith('NetworkReceiver::<In>::recv')]
    ctx.inst('Iterate::wait_update', {'select': [t['at'] for _, t in sel], 'blocking recv': [t['at'] for _, t in rcv]})
    if not sel:
        ctx.viol('%s|no-select' % wu.path, wu.at,
                 'Iterate::wait_update blocks on the state channel without watching its input: an upstream producer blocked on a full '
                 'input channel would deadlock the loop', None)
    for bi, t in rcv:
        dnf = q.cond_of_block(facts, wu, bi)
        if not q.cond_has(dnf, lambda a: a[0] == 'is' and 'input_receiver' in a[1] and a[2] == 'None'):
            ctx.viol('%s|blocking-with-input' % wu.path, t['at'],
                     'the blocking recv on the state channel is reachable while an input receiver is still present (conditions: %s)' % show_dnf(dnf), None)
    # Iterate is the only consumer of the (bounded) feedback channel: it must poll it in every activation, also while
    # it is still re-emitting the current round, otherwise the body's End blocks on a full channel and the cycle deadlocks
    nx = facts.method(ITERATE, 'next', trait=OP)
    sym = q.sym(facts, nx)
    polls = [(bi, t) for bi, t in nx.calls() if (t['callee'].get('path') or '').endswith('::try_recv') and 'feedback_receiver' in render(strip(sym.operand(t['args'][0])))]
    rets = nx.return_blocks()
    ctx.inst('Iterate::next|feedback poll', {'try_recv sites': [t['at'] for _, t in polls], 'return blocks': len(rets)})
    if not polls:
        ctx.viol('%s|no-feedback-poll' % nx.path, nx.at, 'Iterate::next never polls the feedback channel without blocking', None)
    elif not all(any(nx.dominates(pb, r) for pb, _ in polls) for r in rets):
        ctx.viol('%s|feedback-poll-skipped' % nx.path, polls[0][1]['at'],
                 'Iterate::next can return an element without having drained the feedback channel in this activation: while a large round '
                 'is being re-emitted nobody reads the bounded feedback edge, the body\'s End blocks on it and the loop deadlocks', None)


@rule('C04', 'R10', 'Iterate never blocks on one channel while another one it must keep draining is open: no blocking recv on the input alone; a blocking recv on feedback / state only once the input is gone')
def c04_r10(ctx):
    """Iterate is the only consumer of three bounded channels (loop input, feedback, state).  A blocking receive on one of them
    while another is still open lets that other one fill up; its producer blocks, and when that producer is (transitively) what
    the awaited channel depends on, the job never terminates.  The code's own idiom is `select` over the pair; a plain blocking
    `recv` is legal only on feedback/state and only when `input_receiver` is None.  Read on the helper-inlined body of next()."""
    facts = ctx.facts
    nx = facts.method(ITERATE, 'next', trait=OP)
    sym = q.sym(facts, nx)
    n = 0
    for bi, t in nx.calls():
        pth = t['callee'].get('path') or ''
        if not (pth.endswith('NetworkReceiver::<In>::recv') or pth.endswith('NetworkReceiver::<In>::recv_timeout')):
            continue
        rcv = render(strip(sym.operand(t['args'][0])))
        which = [k for k in ('input_receiver', 'feedback_receiver', 'state_receiver') if k in rcv]
        if len(which) != 1:
            continue
        n += 1
        dnf = q.cond_of_block(facts, nx, bi)
        ctx.inst('Iterate::next|blocking recv|%s|%s' % (which[0], t['at']), {'receiver': rcv[:120], 'clauses': len(dnf), 'sample': show_dnf(dnf)[:2]})
        if which[0] == 'input_receiver':
            ctx.viol('%s|blocks-on-input' % nx.path, t['at'],
                     'Iterate blocks in recv() on its input channel alone: while it waits, nobody drains the bounded feedback / state channels; '
                     'if the producers of the input (transitively) wait for the loop body - a diamond around the loop head - the job deadlocks', None)
        elif not q.cond_has(dnf, lambda a: a[0] == 'is' and 'input_receiver' in a[1] and a[2] == 'None'):
            ctx.viol('%s|blocks-with-input|%s' % (nx.path, which[0]), t['at'],
                     'a blocking recv() on the %s channel is reachable while the input receiver still exists: the upstream of the loop blocks on a '
                     'full input channel' % which[0].split('_')[0], None)
    sels = [t['at'] for bi, t in nx.calls() if (t['callee'].get('path') or '').endswith('::select')]
    ctx.inst('Iterate::next|select sites', {'select': sels})
    if n == 0 and not sels:
        raise AnchorMissing('Iterate::next contains neither blocking recv nor select on its channels')


@rule('C10', 'R8', 'IterationStateLock generation protocol: lock makes an even generation odd, unlock makes it even and wakes all, waiters wait while gen < requested')
def c10_r8(ctx):
    facts = ctx.facts
    lk = facts.fn(LOCK + '::lock')
    ul = facts.fn(LOCK + '::unlock')
    wu = facts.fn(LOCK + '::wait_for_update')

    def increments(fn):
        out = []
        sym = q.sym(facts, fn)
        for bi, blk in enumerate(fn.blocks):
            if blk['cleanup']:
                continue
            for s in blk['s']:
                if s['k'] == 'assign' and s['rv']['r'] == 'bin' and s['rv']['op'] in ('AddWithOverflow', 'Add'):
                    out.append((bi, s, render(strip(sym.rvalue(s['rv'])))))
        return out
    inc = increments(lk)
    ctx.inst('IterationStateLock::lock', {'increments': [d for _, _, d in inc]})
    if len(inc) != 1 or '1_usize' not in inc[0][2]:
        ctx.viol('%s|increment' % lk.path, lk.at, 'lock() must advance the generation by exactly one at one site', None)
    else:
        dnf = q.cond_of_block(facts, lk, inc[0][0])
        ok = q.cond_has(dnf, lambda a: a[0] == 'cmp' and 'Rem(' in (a[1] + a[2]) and '2_usize' in (a[1] + a[2]) and '0_usize' in (a[1], a[2]) and a[3] == frozenset(['=']))
        ctx.inst('IterationStateLock::lock|guard', {'conditions': show_dnf(dnf)})
        if not ok:
            ctx.viol('%s|guard' % lk.path, inc[0][1]['at'],
                     'lock() advances the generation on a path not guarded by "generation is even" (conditions: %s): a second lock() of the same '
                     'round (every local replica calls it) would make it even again and release the waiting Start blocks early' % show_dnf(dnf), None)
    inc = increments(ul)
    na = [(bi, t) for bi, t in ul.calls() if (t['callee'].get('path') or '') == 'std::sync::Condvar::notify_all']
    ctx.inst('IterationStateLock::unlock', {'increments': [d for _, _, d in inc], 'notify_all': [t['at'] for _, t in na]})
    if len(inc) != 1 or '1_usize' not in inc[0][2]:
        ctx.viol('%s|increment' % ul.path, ul.at, 'unlock() must advance the generation by exactly one', None)
    else:
        dnf = q.cond_of_block(facts, ul, inc[0][0])
        if any(c for c in dnf):
            ctx.viol('%s|conditional' % ul.path, inc[0][1]['at'], 'unlock() advances the generation only under %s' % show_dnf(dnf), None)
    if not na or not all(ul.dominates(na[0][0], r) for r in ul.return_blocks()):
        ctx.viol('%s|no-wakeup' % ul.path, ul.at, 'unlock() can return without notify_all: Start blocks waiting for the new state would sleep forever', None)
    if na and inc and not ul.dominates(inc[0][0], na[0][0]):
        ctx.viol('%s|wakeup-before-increment' % ul.path, na[0][1]['at'], 'unlock() wakes the waiters before advancing the generation', None)
    # wait_for_update: wait_while(|r| *r < generation)
    from .timeorder import closure_cmp, cmp_rel_of
    ww = [(bi, t) for bi, t in wu.calls() if (t['callee'].get('path') or '').endswith('Condvar::wait_while')]
    if not ww:
        raise AnchorMissing('wait_for_update does not use Condvar::wait_while')
    cl = facts.closures_of(wu)
    okw = False
    for g in cl:
        d, neg = closure_cmp(facts, g)
        if d is None:
            continue
        rel, a, b = cmp_rel_of(d, lambda x: '^arg' in x)       # the requested generation: a parameter of wait_for_update captured by the predicate
        # rel is "requested generation REL current": waiting while current < requested  <=> requested > current
        if rel is not None and neg:
            rel = frozenset({'<', '=', '>'} - set(rel))
        ctx.inst('wait_for_update|predicate', {'waits while requested {%s} current' % (''.join(sorted(rel)) if rel else '?'): True, 'operands': [a, b]})
        if rel == frozenset(['>']):
            okw = True
    if not okw:
        ctx.viol('%s|predicate' % wu.path, wu.at,
                 'wait_for_update must block exactly while the lock generation is below the requested one: `<=` never wakes for the current '
                 'round, `>`/`!=` lets elements of the next round through before the state is installed', None)


def _core(x):
    """strip clones / derefs / borrows from a rendered term"""
    import re as _re
    prev = None
    while prev != x:
        prev = x
        x = x.strip()
        x = _re.sub(r'^[&*]+', '', x)
        for pre in ('Clone::clone(', 'Deref::deref(', 'DerefMut::deref_mut('):
            if x.startswith(pre) and x.endswith(')'):
                x = x[len(pre):-1]
    return x


@rule('C10', 'R9', 'at every ordinary block boundary (split_block, binary_connection, route) the new block\'s Start waits on the innermost state lock of the iteration context that very block is given')
def c10_r9(ctx):
    """A block inside a loop body must not let an element of round k+1 pass before the state of round k is installed (C10.R4: Start
    waits on its `state_lock`).  Which lock a Start gets is decided where the block is created: it has to be `last()` of the
    iteration context handed to `new_block` for that block.  A Start built with the lock of one *input* (or none) while the block
    lives in the loop of the other input reads stale state when the state broadcast is slower than the data."""
    facts = ctx.facts
    roots = facts.find(r'Stream::<Op>::split_block$|Stream::<Op>::binary_connection$|RouterBuilder::<Out, OperatorChain>::build_inner$')
    if len(roots) < 3:
        raise AnchorMissing('expected split_block, binary_connection and RouterBuilder::build_inner')
    for f0 in roots:
        locks, ctxs, passed = [], [], []
        for f in facts.family(f0):
            sym = q.sym(facts, f)
            for bi, t in f.calls():
                p = t['callee'].get('path') or ''
                if p.endswith('StreamContextInner::new_block') and len(t['args']) >= 4:
                    ctxs.append((t['at'], _core(render(strip(sym.operand(t['args'][3]))))))
                    continue
                for a in t['args']:
                    if a[0] == 'k' or len(a[1]) != 1:
                        continue
                    ty = f.locals[a[1][0]]['ty']
                    if 'std::option::Option<std::sync::Arc<renoir::operator::iteration::IterationStateLock' in ty and not ty.startswith('&'):
                        r = render(strip(sym.operand(a)))
                        passed.append((t['at'], r))
                        if '::last(' in r:
                            inner = r[r.index('::last(') + 7:]
                            depth, out = 1, ''
                            for ch in inner:
                                if ch == '(':
                                    depth += 1
                                elif ch == ')':
                                    depth -= 1
                                    if depth == 0:
                                        break
                                out += ch
                            locks.append((t['at'], _core(out)))
        name = f0.path.rsplit('::', 1)[-1]
        ctx.inst('%s|state lock' % name, {'new_block contexts': [c for _, c in ctxs], 'lock taken from': [l for _, l in locks]})
        if not ctxs or not passed:
            raise AnchorMissing('%s: no new_block call / no state-lock argument found' % f0.path)
        for at, r in passed:
            if '::last(' not in r:
                ctx.viol('%s|no-lock' % f0.path, at, 'the Start of the new block is built with the state lock `%s`, not with the innermost lock of '
                         'its iteration context: inside a loop it would let elements of the next round pass before the state is installed' % r[:80], None)
        cset = {c for _, c in ctxs}
        for at, l in locks:
            if l not in cset:
                ctx.viol('%s|foreign-lock' % f0.path, at, 'the Start of the new block waits on the last lock of `%s` while the block itself is created in the '
                         'iteration context `%s`: when the two differ (a side input from outside the loop) the block does not wait for the state of '
                         'its own loop' % (l, sorted(cset)[0]), None)
