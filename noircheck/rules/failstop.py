"""C20 fail-stop rules and the transport-result rules shared with C02.R2."""
from ..core import rule, Inconclusive
from ..facts import AnchorMissing, SE, is_local
from ..symex import render, strip
from .. import q
from .protocol import standard_operators, short

OP = 'renoir::operator::Operator'
SEND_TARGETS = (
    'renoir::network::network_channel::NetworkSender::<Out>::send',
    'renoir::network::network_channel::NetworkSender::<Out>::try_send',
    'renoir::block::batcher::Batcher::<Out>::flush',
    'renoir::block::batcher::Batcher::<Out>::end',
    'renoir::block::batcher::Batcher::<Out>::enqueue',
    'renoir::channel::Sender::<T>::send',
)


def reachable_fns(facts, start):
    """crate functions reachable from `start` through resolved calls and closures (call graph, lib only)"""
    seen = {}
    work = [(start, None)]
    while work:
        f, parent = work.pop()
        if f.path in seen:
            continue
        seen[f.path] = parent
        for g in facts.closures_of(f):
            work.append((g, f.path))
        for bi, t in f.calls(include_cleanup=True):
            c = t['callee']
            for p in (c.get('resolved'), c.get('path')):
                if not p:
                    continue
                for g in facts.by_path.get(p, []):
                    if g.crate == 'renoir':
                        work.append((g, f.path))
                # a trait method called on a generic type: every crate impl is a possible target
            if c.get('trait') and not c.get('resolved') and c.get('trait', '').startswith('renoir::'):
                name = (c.get('path') or '').rsplit('::', 1)[-1]
                for g in facts.impl_methods(c['trait'], name):
                    work.append((g, f.path))
    return seen


def resolve_targets(facts, names):
    out = set()
    for n in names:
        if n in facts.by_path:
            out.add(n)
    return out


@rule('C20', 'R1', 'nothing is sent while unwinding: no Drop impl reaches a send / flush / end; no operator implements Drop')
def c20_r1(ctx):
    facts = ctx.facts
    targets = resolve_targets(facts, SEND_TARGETS)
    if len(targets) < 4:
        raise AnchorMissing('send/flush anchors not found: %s' % sorted(set(SEND_TARGETS) - targets))
    drops = [f for f in facts.lib_fns() if f.impl_trait == 'std::ops::Drop' and f.name == 'drop']
    for d in drops:
        reach = reachable_fns(facts, d)
        # a Drop body that invokes a generic callback (`(self.handler)()`): every closure created in a
        # function that constructs this type may be that callback
        generic_cb = any((t['callee'].get('path') or '').startswith('std::ops::Fn') and not t['callee'].get('resolved')
                         for f_ in [d] + facts.closures_of(d) for _, t in f_.calls(include_cleanup=True))
        if generic_cb and d.impl_adt:
            for g in facts.lib_fns():
                builds = any(d.impl_adt in (t['callee'].get('impl_self') or '') or (t['callee'].get('self_adt') == d.impl_adt)
                             for _, t in g.calls()) or bool(q.aggregates(g, d.impl_adt))
                if builds and g.impl_adt != d.impl_adt:
                    for cl in facts.closures_of(g):
                        for k, v in reachable_fns(facts, cl).items():
                            reach.setdefault(k, v if v else d.path)
        hit = sorted(set(reach) & targets)
        ctx.inst('Drop|' + (d.impl_adt or d.path), {'drop impl': d.path, 'reachable crate functions': len(reach), 'reaches send/flush': hit})
        if hit:
            # chain for the report
            chain = [hit[0]]
            while reach.get(chain[-1]):
                chain.append(reach[chain[-1]])
            ctx.viol('%s|drop-sends|%s' % (d.impl_adt, hit[0]), d.at,
                     'Drop::drop of %s can reach %s: a replica that panics would still emit elements or end markers '
                     'downstream while unwinding, masking the failure' % (d.impl_adt, hit[0]),
                     {'call chain': list(reversed(chain))})
    op_adts = {i.get('self_adt') for i in facts.impls_of(OP)}
    drop_adts = {i.get('self_adt') for i in facts.impls_of('std::ops::Drop')}
    both = sorted(x for x in (op_adts & drop_adts) if x)
    ctx.inst('operators-with-Drop', {'operator types': len(op_adts), 'with Drop impl': both})
    for a in both:
        # allowed only if its drop reaches nothing (already checked above)
        pass
    # every type holding a Batcher / NetworkSender must not implement Drop with sends (covered by the
    # reachability above because all Drop bodies of the crate are enumerated)
    ctx.count('drop_impls', len(drops))
    if not drops:
        ctx.note('the crate has no Drop impl at all')
        ctx.inst('no-drop-impls', {'drop impls': 0}, nontrivial=False)


# (caller function path regex, callee suffix) -> reason ; results that may be ignored
R2_EXCEPTIONS = {
    ('CollectChannelSink', 'Sender::<T>::send'): 'the user may have dropped the receiving end of collect_channel(); by design not an error',
    ('demux_thread', 'Sender::<T>::send'): 'a local receiver that is gone is logged; its worker\'s own panic is surfaced by the join in start_blocking (C20.R3)',
    ('demultiplexer', 'Sender::<T>::send'): 'a local receiver that is gone is logged; its worker\'s own panic is surfaced by the join in start_blocking (C20.R3)',
}
TRANSPORT = (
    'renoir::channel::Sender::<T>::send', 'renoir::channel::Receiver::<T>::recv', 'renoir::channel::Receiver::<T>::recv_timeout',
    'renoir::network::network_channel::NetworkSender::<Out>::send',
    'renoir::network::network_channel::NetworkReceiver::<In>::recv',
    'std::io::Write::write_all', 'std::io::Read::read_exact', 'std::io::Write::flush',
    'bincode::config::Options::serialize_into', 'bincode::config::Options::deserialize', 'bincode::config::Options::deserialize_from',
    'bincode::serialize_into', 'bincode::deserialize',
)
SWALLOW = ('std::result::Result::<T, E>::ok', 'std::result::Result::<T, E>::is_ok', 'std::result::Result::<T, E>::is_err',
           'std::result::Result::<T, E>::unwrap_or', 'std::result::Result::<T, E>::unwrap_or_default',
           'std::result::Result::<T, E>::err', 'std::mem::drop')


CONVERT = ('std::result::Result::<T, E>::ok', 'std::result::Result::<T, E>::is_ok', 'std::result::Result::<T, E>::is_err',
           'std::result::Result::<T, E>::err')


def failure_branch_handled(fn, flag, flag_true_is_ok):
    """`flag` is the bool made from a transport Result (is_ok / is_err). True if, on the branch where the Result was an error, the
    function builds an `Err` of its own or diverges (panic) before it rejoins the success branch"""
    for bi, blk in enumerate(fn.blocks):
        t = blk['t']
        if t['t'] != 'switch' or t['discr'][0] == 'k' or t['discr'][1] != [flag]:
            continue
        fail_val = '0' if flag_true_is_ok else '1'
        f_succ = None
        s_succ = None
        for v, tb in t['targets']:
            if v == fail_val:
                f_succ = tb
            else:
                s_succ = tb
        if f_succ is None:
            f_succ = t['otherwise']
        if s_succ is None:
            s_succ = t['otherwise']
        succ_reach = fn.reachable_from(s_succ)
        region = [b for b in fn.reachable_from(f_succ) if b not in succ_reach]
        for b in region:
            for st in fn.blocks[b]['s']:
                if st['k'] == 'assign' and st['rv']['r'] == 'agg' and st['rv'].get('k') == 'adt' and st['rv'].get('v') == 'Err':
                    return True
            tt = fn.blocks[b]['t']
            if tt['t'] == 'call' and tt.get('target') is None:
                return True
            if tt['t'] in ('unreachable', 'abort'):
                return True
        return False
    return True     # the flag is not branched on directly (stored / passed on): not decided here


def value_fate(fn, loc, depth=0):
    """fates of the value held in local `loc` (same vocabulary as result_fate)"""
    fates = set()
    seen = set()
    work = [loc]
    while work:
        l = work.pop()
        if l in seen:
            continue
        seen.add(l)
        if l == 0:
            fates.add('returned')
            continue
        for ub, kind in fn.uses_of(l):
            blk = fn.blocks[ub]
            if kind == 'drop':
                continue
            if kind == 'switch':
                fates.add('switch')
            if kind == 'arg':
                fates.add(blk['t']['callee'].get('path') or 'indirect')
            if kind == 'rhs':
                for s in blk['s']:
                    if s['k'] != 'assign':
                        continue
                    rv = s['rv']
                    srcs = []
                    if rv['r'] in ('use', 'cast', 'un'):
                        srcs = [rv.get('o') or rv.get('a')]
                    elif rv['r'] == 'agg':
                        srcs = rv['o']
                    elif rv['r'] == 'bin':
                        srcs = [rv['a'], rv['b']]
                    elif rv['r'] in ('ref', 'discr'):
                        srcs = [['c', rv['p']]]
                    if any(o and o[0] != 'k' and o[1][0] == l for o in srcs):
                        if rv['r'] == 'discr':
                            fates.add('switch')
                        elif is_local(s['lhs']):
                            work.append(s['lhs'][0])
                        else:
                            fates.add('stored')
    return fates or {'discarded'}


def result_fate(fn, bi):
    """how the Result returned by the call in block bi is consumed: set of callee paths / 'switch' / 'discarded' / 'returned'"""
    t = fn.blocks[bi]['t']
    d = t['dest']
    if not is_local(d):
        return {'stored'}
    fates = set()
    seen = set()
    work = [d[0]]
    while work:
        loc = work.pop()
        if loc in seen:
            continue
        seen.add(loc)
        if loc == 0:
            fates.add('returned')
            continue
        for ub, kind in fn.uses_of(loc):
            blk = fn.blocks[ub]
            if kind == 'drop':
                continue
            if kind == 'switch':
                fates.add('switch')
            if kind == 'arg':
                tt = blk['t']
                cp = tt['callee'].get('path') or 'indirect'
                if cp in CONVERT and is_local(tt['dest']):
                    # `.is_ok()` / `.ok()` / `.err()`: the information lives on in the converted value; it is swallowed only
                    # if that value is looked at by nobody
                    sub = value_fate(fn, tt['dest'][0])
                    if sub == {'discarded'}:
                        fates.add(cp)
                    elif sub == {'switch'} and cp.endswith(('::is_ok', '::is_err')) and not failure_branch_handled(fn, tt['dest'][0], cp.endswith('::is_ok')):
                        # `if r.is_ok() { .. }` with nothing on the other side: the failure is looked at and dropped
                        fates.add(cp)
                    else:
                        fates |= sub
                else:
                    fates.add(cp)
            if kind == 'rhs':
                for s in blk['s']:
                    if s['k'] != 'assign':
                        continue
                    rv = s['rv']
                    srcs = []
                    if rv['r'] in ('use', 'cast'):
                        srcs = [rv['o']]
                    elif rv['r'] == 'agg':
                        srcs = rv['o']
                    elif rv['r'] in ('ref', 'discr'):
                        srcs = [['c', rv['p']]]
                    if any(o and o[0] != 'k' and o[1][0] == loc for o in srcs):
                        if rv['r'] == 'discr':
                            fates.add('switch')
                        elif is_local(s['lhs']):
                            work.append(s['lhs'][0])
                        else:
                            fates.add('stored')
    if not fates:
        fates.add('discarded')
    return fates


def transport_rule(ctx, only_worker=False):
    facts = ctx.facts
    n = 0
    for f in facts.lib_fns():
        if f.file.startswith('src/network/tokio'):
            continue
        for bi, t in f.calls():
            c = t['callee']
            p = c.get('path') or ''
            r = c.get('resolved') or ''
            name = None
            for tp in TRANSPORT:
                if p == tp or r == tp:
                    name = tp
            if name is None:
                continue
            if t.get('x') and 'log' in t.get('x', ''):
                continue
            n += 1
            fates = result_fate(f, bi)
            bad = ('discarded' in fates) or any(s in fates for s in SWALLOW)
            site = '%s|%s' % (f.path, name.rsplit('::', 2)[-2] + '::' + name.rsplit('::', 1)[-1])
            ctx.inst(site + '|' + str(sum(1 for k in ctx.report.instances.get(ctx.rid, {}) if k.startswith(site))),
                     {'caller': f.path, 'callee': name, 'at': t['at'], 'result consumed by': sorted(fates)})
            if bad:
                exc = None
                for (cf, cs), reason in R2_EXCEPTIONS.items():
                    if cf in f.path and name.endswith(cs):
                        exc = reason
                if exc:
                    ctx.exception('%s -> %s' % (f.path, name), exc)
                    continue
                ctx.viol('%s|swallowed|%s' % (f.path, name), t['at'],
                         'the Result of %s is %s in %s: a transport failure would be swallowed instead of failing the worker'
                         % (name, 'discarded' if 'discarded' in fates else 'neutralised by ' + ', '.join(sorted(s for s in fates if s in SWALLOW)), f.path), None)
    return n


@rule('C20', 'R2', 'channel / socket failures escalate: no transport Result is discarded or neutralised')
def c20_r2(ctx):
    transport_rule(ctx)


@rule('C02', 'R2', 'transport results are never swallowed (send, recv, write_all, read_exact, (de)serialize)')
def c02_r2(ctx):
    transport_rule(ctx)


@rule('C20', 'R3', 'every JoinHandle::join result is checked (a panicked worker fails execute_blocking)')
def c20_r3(ctx):
    facts = ctx.facts
    n = 0
    for f in facts.lib_fns():
        if f.file.startswith('src/network/tokio'):
            continue
        for bi, t in f.calls():
            p = t['callee'].get('path') or ''
            if p != 'std::thread::JoinHandle::<T>::join':
                continue
            n += 1
            fates = result_fate(f, bi)
            ok = any(x in fates for x in ('std::result::Result::<T, E>::unwrap', 'std::result::Result::<T, E>::expect'))
            ctx.inst('%s|join|%d' % (f.path, n), {'caller': f.path, 'at': t['at'], 'result consumed by': sorted(fates)})
            if not ok:
                ctx.viol('%s|join-unchecked' % f.path, t['at'],
                         'the result of JoinHandle::join in %s does not reach unwrap/expect: a panicked worker or network '
                         'thread would be ignored and execute_blocking would report success' % f.path, None)
    if n < 2:
        raise AnchorMissing('fewer than 2 JoinHandle::join call sites found')
    # the worker loop ends only on Terminate
    dw = facts.one(r'^renoir::worker::do_work$')
    p = q.pe(facts, dw)
    defuse = q.calls_suffix(dw, 'CatchPanic::<F>::defuse')
    if not defuse:
        raise AnchorMissing('do_work does not call CatchPanic::defuse')
    for bi, t in defuse:
        dnf = q.cond_of_block(facts, dw, bi)
        ctx.inst('do_work|exit', {'conditions': q.show_dnf(dnf)})
        if not q.cond_has(dnf, lambda a: a[0] == 'is' and a[2] == 'Terminate'):
            ctx.viol('%s|exit-without-terminate' % dw.path, t['at'],
                     'the worker loop can finish (and defuse its panic guard) without having received Terminate', None)


SINK_OUTPUT_WRITERS = ('std::sync::Mutex::<T>::lock', 'std::sync::Mutex::<T>::try_lock')


@rule('C20', 'R4', 'sinks publish their result only when Terminate is received')
def c20_r4(ctx):
    sink_rule(ctx)


@rule('C04', 'R4', 'every sink writes its shared output exactly on the Terminate edge')
def c04_r4(ctx):
    sink_rule(ctx)


def sink_rule(ctx):
    facts = ctx.facts
    sink_adts = {i.get('self_adt') for i in facts.impls_of('renoir::operator::sink::Sink')}
    if len(sink_adts) < 3:
        raise AnchorMissing('fewer than 3 impls of the Sink trait')
    n = 0
    for f in facts.impl_methods(OP, 'next'):
        if f.impl_adt not in sink_adts:
            continue
        fam = facts.family(f)
        locks = []
        for g in fam:
            for bi, t in g.calls():
                if (t['callee'].get('path') or '') in SINK_OUTPUT_WRITERS:
                    locks.append((g, bi, t))
        ctx.inst('sink|' + short(f), {'sink': f.path, 'output lock sites': [t['at'] for _, _, t in locks]}, nontrivial=bool(locks))
        for g, bi, t in locks:
            n += 1
            if g is not f:
                ctx.viol('%s|publish-in-closure' % f.impl_adt, t['at'], 'sink output is written inside a closure (cannot be tied to the Terminate edge)', None)
                continue
            dnf = q.cond_of_block(facts, f, bi)
            # Collect drains the stream in one activation: its closure returns None only on Terminate
            if f.impl_adt.endswith('::Collect'):
                ok = collect_drains_to_terminate(facts, f)
            else:
                ok = q.cond_has(dnf, lambda a: a[0] == 'is' and a[2] == 'Terminate')
            if not ok:
                ctx.viol('%s|publish-early' % f.impl_adt, t['at'],
                         '%s::next writes the shared sink output on a path that is not guarded by "received Terminate" '
                         '(conditions: %s): a partial result could be published' % (short(f), q.show_dnf(dnf)), None)
    ctx.count('sink_publish_sites', n)
    if n < 3:
        raise Inconclusive('fewer than 3 sink publish sites found (%d)' % n)


def collect_drains_to_terminate(facts, f):
    """Collect::next: the from_fn closure returns None only on the Terminate edge"""
    from ..pathcond import PathEnum
    for g in facts.closures_of(f):
        has_input = any((t['callee'].get('path') == 'renoir::operator::Operator::next') for _, t in g.calls())
        if not has_input:
            continue
        nones = [(bi, s) for bi, s in q.aggregates(g, 'std::option::Option', 'None') if s['lhs'] == [0]]
        if not nones:
            return False
        for bi, s in nones:
            dnf = q.cond_of_block(facts, g, bi)
            if not q.cond_has(dnf, lambda a: a[0] == 'is' and a[2] == 'Terminate'):
                return False
        return True
    return False


@rule('C04', 'R8', 'job start-up / tear-down order: every block is initialised, the topology drops its own channel ends, workers are joined before the network threads')
def c04_r8(ctx):
    facts = ctx.facts
    ba = facts.method('renoir::scheduler::Scheduler', 'build_all')
    sym = q.sym(facts, ba)
    fin = q.calls_suffix(ba, 'NetworkTopology::finalize')
    drains = [(bi, t) for bi, t in ba.calls() if (t['callee'].get('path') or '').endswith('::drain') and 'block_init' in render(strip(sym.operand(t['args'][0])))]
    inits = [(bi, t) for bi, t in ba.calls() if t['callee'].get('indirect') or (t['callee'].get('path') or '').startswith('std::ops::Fn')]
    pushes = [(bi, t) for bi, t in ba.calls() if (t['callee'].get('path') or '').endswith('Vec::<T, A>::push') and f_local_ty(ba, t['args'][0]).find('JoinHandle') >= 0]
    ctx.inst('build_all', {'finalize': [t['at'] for _, t in fin], 'block_init drain': [t['at'] for _, t in drains], 'init calls': len(inits), 'handle pushes': len(pushes)})
    if not fin or not all(ba.dominates(fin[0][0], r) for r in ba.return_blocks()):
        ctx.viol('%s|no-finalize' % ba.path, ba.at,
                 'build_all can return without NetworkTopology::finalize(): the topology keeps its own sender clones alive, receivers never see '
                 'their channels close and network threads never exit', None)
    if not drains or not any('RangeFull' in g for _, t in drains for g in t['callee'].get('gargs', [])):
        ctx.viol('%s|not-all-blocks' % ba.path, ba.at, 'build_all does not start every scheduled block (loop over block_init.drain(..))', None)
    cyc = lambda b: any(b in ba.reachable_from(s) for s in ba.succ(b))
    if not inits or not any(cyc(b) for b, _ in inits) or not pushes or not any(cyc(b) for b, _ in pushes):
        ctx.viol('%s|handles' % ba.path, ba.at, 'build_all does not call every init function and keep its join handle', None)
    for bi, t in pushes:
        extra = [a for c in q.cond_of_block(facts, ba, bi) for a in c if not (a[0] == 'is' and 'Iterator::next' in a[1])]
        if extra:
            ctx.viol('%s|conditional-handle' % ba.path, t['at'], 'a worker handle is kept only under %s: other workers would never be joined' % extra, None)
    if fin and inits and not all(ba.dominates(b, fin[0][0]) or not cyc(b) for b, _ in inits):
        pass
    sb = facts.method('renoir::scheduler::Scheduler', 'start_blocking')
    joins = [(bi, t) for bi, t in sb.calls() if (t['callee'].get('path') or '') == 'std::thread::JoinHandle::<T>::join']
    stop = q.calls_suffix(sb, 'NetworkTopology::stop_and_wait')
    ctx.inst('start_blocking', {'worker joins': [t['at'] for _, t in joins], 'stop_and_wait': [t['at'] for _, t in stop]})
    if not joins or not stop:
        ctx.viol('%s|no-join' % sb.path, sb.at, 'start_blocking must join the workers and then wait for the network threads', None)
    else:
        if not any(b in sb.reachable_from(s) for b, _ in joins for s in sb.succ(b)):
            ctx.viol('%s|join-not-all' % sb.path, joins[0][1]['at'], 'start_blocking joins a single worker, not all of them', None)
        if stop[0][0] not in sb.reachable_from(joins[0][0]):
            ctx.viol('%s|stop-before-join' % sb.path, stop[0][1]['at'], 'the network threads are awaited before the workers are joined', None)
        if not all(sb.dominates(stop[0][0], r) for r in sb.return_blocks()):
            ctx.viol('%s|no-stop' % sb.path, sb.at, 'start_blocking can return without waiting for the network threads', None)
    sw = facts.method('renoir::network::topology::NetworkTopology', 'stop_and_wait')
    j2 = [(bi, t) for bi, t in sw.calls() if (t['callee'].get('path') or '') == 'std::thread::JoinHandle::<T>::join']
    if not j2 or not any(b in sw.reachable_from(s) for b, _ in j2 for s in sw.succ(b)):
        ctx.viol('%s|not-all-threads' % sw.path, sw.at, 'stop_and_wait does not join every network thread', None)
    fz = facts.method('renoir::network::topology::NetworkTopology', 'finalize')
    takes = sorted({render(strip(q.sym(facts, fz).operand(t['args'][0]))) for bi, t in fz.calls() if (t['callee'].get('path') or '').endswith('Option::<T>::take')})
    ctx.inst('NetworkTopology::finalize', {'dropped': takes})
    for need in ('self.receivers', 'self.senders', 'self.multiplexers', 'self.demultiplexers'):
        if need not in takes:
            ctx.viol('%s|keeps|%s' % (fz.path, need), fz.at, 'finalize() no longer drops %s: a dangling channel end keeps a link open forever' % need, None)


def f_local_ty(fn, op):
    loc = q.base_local(fn, op)
    return fn.locals[loc]['ty'] if loc is not None else ''
