"""Wire-format agreement of the TCP link (writer / reader siblings) and replica-identity audit: C02.R3, C01.R2."""
import re

from ..core import rule, Inconclusive
from ..facts import AnchorMissing, is_local
from ..symex import render, strip
from .. import q


def cfg_type(txt):
    m = re.search(r'\{alloc\d+: &(.*)\}', txt)
    return m.group(1) if m else txt


@rule('C02', 'R3', 'framing agreement: remote_send and remote_recv use the same header/body codecs and map the routing fields back to where they came from')
def c02_r3(ctx):
    facts = ctx.facts
    snd = facts.one(r'network::sync::remote::remote_send$')
    rcv = facts.one(r'network::sync::remote::remote_recv$')
    ss, rs = q.sym(facts, snd), q.sym(facts, rcv)
    ser = [(bi, t) for bi, t in snd.calls() if (t['callee'].get('path') or '').endswith('Options::serialize_into')]
    des = [(bi, t) for bi, t in rcv.calls() if (t['callee'].get('path') or '').endswith('Options::deserialize')]
    if len(ser) != 2 or len(des) != 2:
        raise AnchorMissing('expected 2 serialize_into in remote_send and 2 deserialize in remote_recv (found %d / %d)' % (len(ser), len(des)))
    s_cfg = [cfg_type(render(strip(ss.operand(t['args'][0])))) for _, t in ser]
    s_val = [render(strip(ss.operand(t['args'][2])))[:60] for _, t in ser]
    r_cfg = [cfg_type(render(strip(rs.operand(t['args'][0])))) for _, t in des]
    ctx.inst('codecs', {'send: (codec, value)': list(zip([c[-60:] for c in s_cfg], s_val)), 'recv: codec': [c[-60:] for c in r_cfg]})
    # order: header first, then body, on both sides (dominance)
    if not snd.dominates(ser[0][0], ser[1][0]) or not rcv.dominates(des[0][0], des[1][0]):
        ctx.viol('%s|order' % snd.path, snd.at, 'header and body are not (de)serialised in a fixed order', None)
    hdr_i = 0 if 'MessageHeader' in s_val[0] else 1
    msg_p = q.param(snd, 'NetworkMessage')
    dest_p = q.param(snd, 'ReceiverEndpoint')
    if 'MessageHeader' not in s_val[hdr_i] or s_val[1 - hdr_i] not in (msg_p, '*' + msg_p, '&' + msg_p):
        ctx.viol('%s|what' % snd.path, snd.at, 'remote_send must serialise the MessageHeader and then the message (found %s)' % s_val, None)
    if hdr_i != 0:
        ctx.viol('%s|header-not-first' % snd.path, snd.at, 'remote_send writes the body before the header', None)
    if s_cfg[0] != r_cfg[0]:
        ctx.viol('remote|header-codec-mismatch', ser[0][1]['at'],
                 'the header is written with %s but read with %s: the reader would mis-parse size and routing fields' % (s_cfg[0][-50:], r_cfg[0][-50:]), None)
    if s_cfg[1] != r_cfg[1]:
        ctx.viol('remote|body-codec-mismatch', ser[1][1]['at'], 'the message body is written with %s but read with %s' % (s_cfg[1][-50:], r_cfg[1][-50:]), None)
    if 'Fixint' not in s_cfg[0]:
        ctx.viol('%s|header-not-fixed-size' % snd.path, ser[0][1]['at'], 'the header codec is not fixed-size: the reader reads exactly HEADER_SIZE bytes', None)
    # routing fields: header.replica_id <- dest.coord.replica_id ; header.sender_block_id <- dest.prev_block_id
    hdr = q.aggregates(snd, 'renoir::network::sync::remote::MessageHeader')
    if not hdr:
        raise AnchorMissing('remote_send builds no MessageHeader')
    fields = dict(zip(hdr[0][1]['rv']['fields'], [render(strip(ss.operand(o))) for o in hdr[0][1]['rv']['o']]))
    ctx.inst('remote_send|header fields', {k: v[:80] for k, v in fields.items()})
    if fields.get('replica_id') != dest_p + '.coord.replica_id' or fields.get('sender_block_id') != dest_p + '.prev_block_id':
        ctx.viol('%s|header-fields' % snd.path, hdr[0][1]['at'],
                 'the header must carry replica_id = dest.coord.replica_id and sender_block_id = dest.prev_block_id (found %s)'
                 % {k: fields.get(k) for k in ('replica_id', 'sender_block_id')}, None)
    if 'serialized_size' not in fields.get('size', ''):
        ctx.viol('%s|header-size' % snd.path, hdr[0][1]['at'], 'the header size field is not the serialized size of the message', None)
    # reader: ReceiverEndpoint::new(Coord::new(block, host, header.replica_id), header.sender_block_id)
    ep = [(bi, t) for bi, t in rcv.calls() if (t['callee'].get('path') or '').endswith('ReceiverEndpoint::new')]
    co = [(bi, t) for bi, t in rcv.calls() if (t['callee'].get('path') or '').endswith('network::Coord::new')]
    if not ep or not co:
        raise AnchorMissing('remote_recv does not rebuild the ReceiverEndpoint')
    rep = render(strip(rs.operand(co[0][1]['args'][2])))
    prev = render(strip(rs.operand(ep[0][1]['args'][1])))
    ctx.inst('remote_recv|endpoint', {'replica from': rep[-40:], 'prev_block from': prev[-40:]})
    if not rep.endswith('.replica_id') or 'deserialize' not in rep:
        ctx.viol('%s|replica-source' % rcv.path, co[0][1]['at'],
                 'the destination replica is rebuilt from `%s` instead of header.replica_id: the element would be delivered to a different replica' % rep[-60:], None)
    if not prev.endswith('.sender_block_id') or 'deserialize' not in prev:
        ctx.viol('%s|prev-block-source' % rcv.path, ep[0][1]['at'],
                 'the endpoint\'s previous block is rebuilt from `%s` instead of header.sender_block_id' % prev[-60:], None)
    # the body buffer has exactly header.size bytes
    bufs = [render(strip(rs.operand(t['args'][1]))) for bi, t in rcv.calls() if (t['callee'].get('path') or '').endswith('Read::read_exact')]
    ctx.inst('remote_recv|buffers', {'read_exact buffers': [b[:40] + '...' + b[-30:] for b in bufs]})
    if len(bufs) != 2 or '.size' not in bufs[1]:
        ctx.viol('%s|body-size' % rcv.path, rcv.at, 'the body is not read into a buffer of exactly header.size bytes', None)
    # demux: the message is handed to the sender registered for exactly that endpoint
    dm = [f for f in facts.lib_fns() if f.file.endswith('network/sync/demultiplexer.rs') and any((t['callee'].get('path') or '').endswith('remote::remote_recv') for _, t in f.calls())]
    for f in dm:
        s2 = q.sym(facts, f)
        idx = [render(strip(s2.operand(t['args'][1])))[:120] for bi, t in f.calls() if (t['callee'].get('path') or '').endswith('Index::index') or (t['callee'].get('path') or '').endswith('::get')]
        ctx.inst('demux|lookup|%s' % f.name, {'keys': idx})
        if idx and not any('remote_recv' in k for k in idx):
            ctx.viol('%s|wrong-sender' % f.path, f.at, 'the demultiplexer looks the local sender up with `%s`, not with the endpoint returned by remote_recv' % idx, None)


READERS_OK = ('renoir::operator::source::', 'renoir::operator::start::', 'renoir::operator::end::', 'renoir::operator::route::',
              'renoir::operator::iteration::', 'renoir::worker::', 'renoir::scheduler::', 'renoir::network::', 'renoir::environment::',
              'renoir::block::', 'renoir::profiler::', 'renoir::test::', 'renoir::runner::', 'renoir::config::')


@rule('C01', 'R2', 'no replica-identity leak: element-transforming operators never read the replica index / coordinates')
def c01_r2(ctx):
    facts = ctx.facts
    n = 0
    for f in facts.lib_fns():
        if not f.file.startswith('src/operator/') or f.file.startswith('src/operator/source') or f.file.startswith('src/operator/start') \
                or f.file.startswith('src/operator/iteration') or f.file.endswith('end.rs') or f.file.endswith('route.rs') or f.file.startswith('src/operator/sink'):
            continue
        if f.name in ('setup', 'structure', 'fmt', 'new', 'clone'):
            continue
        sym = None
        for bi, blk in enumerate(f.blocks):
            if blk['cleanup']:
                continue
            for s in blk['s']:
                if s['k'] != 'assign' or (s.get('x') and 'log' in s['x']):
                    continue
                rv = s['rv']
                pls = []
                if rv['r'] in ('use', 'cast') and rv['o'][0] != 'k':
                    pls.append(rv['o'][1])
                if rv['r'] in ('ref', 'discr'):
                    pls.append(rv['p'])
                for pl in pls:
                    names = [e[2] for e in pl[1:] if isinstance(e, list) and e[0] == 'f']
                    if any(x in ('global_id', 'replica_id', 'host_id') for x in names) or names[-1:] == ['replicas']:
                        n += 1
                        ctx.viol('%s|replica-identity|%s' % (f.path, '.'.join(names)), s['at'],
                                 '%s reads `%s` while processing elements: an operator whose behaviour depends on the replica it runs on '
                                 'breaks deployment transparency' % (f.path, '.'.join(names)), None)
    # enumerate every reader for the evidence
    readers = {}
    for f in facts.lib_fns():
        for blk in f.blocks:
            for s in blk['s']:
                if s['k'] == 'assign' and s['rv']['r'] in ('use', 'ref') and not (s.get('x') and 'log' in s.get('x', '')):
                    pl = s['rv'].get('p') or (s['rv']['o'][1] if s['rv'].get('o') and s['rv']['o'][0] != 'k' else None)
                    if pl:
                        names = [e[2] for e in pl[1:] if isinstance(e, list) and e[0] == 'f']
                        if 'global_id' in names:
                            readers.setdefault(f.root if f.kind == 'closure' else f.path, 0)
                            readers[f.root if f.kind == 'closure' else f.path] += 1
    for k, v in sorted(readers.items()):
        ctx.inst('reads global_id|' + k, {'function': k, 'reads': v})
    if len(readers) < 3:
        raise Inconclusive('fewer than 3 readers of global_id found')


@rule('C02', 'R6', 'link plumbing: mux/demux loops forward every received message with its own endpoint; NetworkSender pairs the message with its own endpoint; NetworkMessage keeps element order')
def c02_r6(ctx):
    facts = ctx.facts
    # ---- mux thread: remote_send(message, dest) with both taken from the same received tuple, unconditionally, in the loop
    mx = facts.one(r'network::sync::multiplexer::mux_thread$')
    sm = q.sym(facts, mx)
    rs = [(bi, t) for bi, t in mx.calls() if (t['callee'].get('path') or '').endswith('remote::remote_send')]
    if len(rs) != 1:
        raise AnchorMissing('mux_thread must call remote_send exactly once (found %d)' % len(rs))
    bi, t = rs[0]
    msg, dest = render(strip(sm.operand(t['args'][0]))), render(strip(sm.operand(t['args'][1])))
    ctx.inst('mux_thread|remote_send', {'message': msg[-60:], 'dest': dest[-60:]})
    if not (msg.endswith('as Ok).0.1') and dest.endswith('as Ok).0.0') and msg[:-1] == dest[:-1]):
        ctx.viol('%s|pairing' % mx.path, t['at'],
                 'mux_thread does not send the received message together with the endpoint it was queued for (message=%s, dest=%s)' % (msg[-50:], dest[-50:]), None)
    dnf = q.cond_of_block(facts, mx, bi)
    extra = [a for c in dnf for a in c if not (a[0] == 'is' and a[2] == 'Ok')]
    if extra or not any(bi in mx.reachable_from(s) for s in mx.succ(bi)):
        ctx.viol('%s|conditional-forward' % mx.path, t['at'], 'mux_thread forwards a queued message only under %s / not in its receive loop' % extra, None)
    fl = [(b2, t2) for b2, t2 in mx.calls() if (t2['callee'].get('path') or '') == 'std::io::Write::flush']
    if not fl or not all(mx.dominates(fl[0][0], r) for r in mx.return_blocks()):
        ctx.viol('%s|no-final-flush' % mx.path, mx.at, 'mux_thread can finish without flushing the socket: the last messages of a link could be lost', None)
    # ---- demux thread
    dm = facts.one(r'network::sync::demultiplexer::demux_thread$')
    sd = q.sym(facts, dm)
    snd = [(bi, t) for bi, t in dm.calls() if re.search(r'channel::Sender::<T>::\w+$', t['callee'].get('path') or '') and len(t['args']) == 2]
    if len(snd) != 1:
        raise AnchorMissing('demux_thread must forward with exactly one call on the endpoint\'s channel::Sender (found %d)' % len(snd))
    bi, t = snd[0]
    if not t['callee']['path'].endswith('::send'):
        ctx.viol('%s|lossy-forward' % dm.path, t['at'],
                 'demux_thread forwards a received message with `%s` instead of the blocking `send`: when the bounded channel of '
                 'the receiving replica is full the message is dropped' % t['callee']['path'].rsplit('::', 1)[1], None)
    recv_ = render(strip(sd.operand(t['args'][0])))
    msg = render(strip(sd.operand(t['args'][1])))
    ctx.inst('demux_thread|send', {'sender looked up by': recv_[-90:], 'message': msg[-60:]})
    if not (msg.endswith('as Some).0.1') and 'as Some).0.0' in recv_ and 'remote_recv' in msg and 'remote_recv' in recv_):
        ctx.viol('%s|pairing' % dm.path, t['at'],
                 'demux_thread does not deliver the received message to the sender registered for the endpoint decoded with it', None)
    dnf = q.cond_of_block(facts, dm, bi)
    extra = [a for c in dnf for a in c if not (a[0] == 'is' and a[2] == 'Some')]
    if extra or not any(bi in dm.reachable_from(s) for s in dm.succ(bi)):
        ctx.viol('%s|conditional-forward' % dm.path, t['at'], 'demux_thread delivers a received message only under %s / not in its receive loop' % extra, None)
    # ---- NetworkSender::send: Mux arm pairs the message with self.receiver_endpoint, Local arm sends the message itself
    ns = facts.fn('renoir::network::network_channel::NetworkSender::<Out>::send')
    s3 = q.sym(facts, ns)
    sends = [(bi, t) for bi, t in ns.calls() if (t['callee'].get('path') or '').endswith('channel::Sender::<T>::send')]
    vals = [render(strip(s3.operand(t['args'][1]))) for _, t in sends]
    ctx.inst('NetworkSender::send', {'sent values': vals})
    mp = q.param(ns, 'NetworkMessage')
    if sorted(vals) != sorted(['(self.receiver_endpoint, %s)' % mp, mp]):
        ctx.viol('%s|payload' % ns.path, ns.at,
                 'NetworkSender::send must hand `message` to the local channel and `(self.receiver_endpoint, message)` to the multiplexer (found %s)' % vals, None)
    # every path sends: no return reachable without a send
    reach = ns.reachable_from(0, avoid=[bi for bi, _ in sends])
    if any(ns.blocks[b]['t']['t'] == 'return' for b in reach):
        ctx.viol('%s|drops' % ns.path, ns.at, 'NetworkSender::send has a path that returns without sending the message', None)
    # ---- NetworkMessage: into_iter is the Vec's own iterator; NetworkDataIterator::next forwards to it
    it = [f for f in facts.lib_fns() if f.name == 'next' and (f.impl_adt or '').endswith('network::NetworkDataIterator')]
    if not it:
        raise AnchorMissing('impl Iterator for NetworkDataIterator not found')
    calls = [(t['callee'].get('path') or '') for _, t in it[0].calls()]
    ctx.inst('NetworkDataIterator::next', {'calls': calls})
    if calls != ['std::iter::Iterator::next']:
        ctx.viol('%s|iteration' % it[0].path, it[0].at, 'NetworkDataIterator::next is no longer a plain forward to the Vec iterator (%s): batch order could change' % calls, None)
    ii = [f for f in facts.lib_fns() if f.name == 'into_iter' and (f.impl_adt or '').endswith('network::NetworkMessage')]
    for f in ii:
        cs = [(t['callee'].get('path') or '') for _, t in f.calls()]
        ctx.inst('NetworkMessage::into_iter', {'calls': cs})
        bad = [c for c in cs if any(x in c for x in ('rev', 'sort', 'reverse', 'skip', 'take', 'filter', 'step_by', 'dedup'))]
        if bad or not any(c.endswith('into_iter') for c in cs):
            ctx.viol('%s|iteration' % f.path, f.at, 'NetworkMessage::into_iter does not iterate the batch as stored (%s)' % cs, None)


@rule('C02', 'R7', 'channel registration: sender and receiver of a link are stored and looked up under the same ReceiverEndpoint')
def c02_r7(ctx):
    facts = ctx.facts
    TOPO = 'renoir::network::topology::NetworkTopology'
    rc = facts.method(TOPO, 'register_channel')
    sym = q.sym(facts, rc)
    ins = [(bi, t) for bi, t in rc.calls() if (t['callee'].get('path') or '').endswith('HashMap::<K, V, S, A>::insert') and len(t['args']) == 3]
    keys = [render(strip(sym.operand(t['args'][1]))) for _, t in ins]
    ctx.inst('register_channel|insert keys', {'keys': keys})
    ep_p = q.param(rc, 'ReceiverEndpoint')      # the endpoint being registered (by type, not by name)
    if len(ins) < 4 or any(k != ep_p for k in keys):
        ctx.viol('%s|key' % rc.path, rc.at, 'register_channel stores a sender/receiver under a key other than the endpoint being registered (%s)' % keys, None)
    lc = [(bi, t) for bi, t in rc.calls() if (t['callee'].get('path') or '').endswith('local_channel')]
    for bi, t in lc:
        a = render(strip(sym.operand(t['args'][0])))
        if a != ep_p:
            ctx.viol('%s|channel-endpoint' % rc.path, t['at'], 'a local channel is created for `%s` instead of the endpoint being registered' % a, None)
    for name in ('get_sender', 'get_receiver'):
        g = facts.method(TOPO, name)
        s2 = q.sym(facts, g)
        looks = [(t['at'], render(strip(s2.operand(t['args'][1])))) for bi, t in g.calls()
                 if (t['callee'].get('path') or '').rsplit('::', 1)[-1] in ('get', 'remove', 'contains_key') and len(t['args']) > 1
                 and 'HashMap' in (t['callee'].get('path') or '')]
        ctx.inst('%s|lookups' % name, {'keys': [k for _, k in looks]})
        gp = q.param(g, 'ReceiverEndpoint')
        if not looks or any(k != gp for _, k in looks):
            ctx.viol('%s|lookup-key' % g.path, g.at, '%s looks a channel end up under a key other than the requested endpoint (%s)' % (name, [k for _, k in looks]), None)
    gs = facts.method(TOPO, 'get_senders')
    fam = facts.family(gs)
    eps = []
    for f in fam:
        s2 = q.sym(facts, f)
        for bi, t in f.calls():
            if (t['callee'].get('path') or '').endswith('ReceiverEndpoint::new'):
                eps.append((render(strip(s2.operand(t['args'][0])))[-40:], render(strip(s2.operand(t['args'][1])))[-40:]))
    ctx.inst('get_senders|endpoints', {'ReceiverEndpoint::new args': eps})
    cp = q.param(gs, 'Coord')
    if not eps or not all(b.endswith(cp + '.block_id') for a, b in eps):
        ctx.viol('%s|endpoint' % gs.path, gs.at, 'get_senders builds receiver endpoints whose previous block is not the sender\'s own block (%s)' % eps, None)


LOSSY_SEND = re.compile(r'^(flume|std::sync::mpsc|crossbeam_channel)::\w*Sender(::<[^>]*>)?::(try_send|send_timeout|send_deadline|try_send_timeout)$')
ANY_SEND = re.compile(r'^(flume|std::sync::mpsc|crossbeam_channel)::\w*Sender(::<[^>]*>)?::\w*send\w*$')


@rule('C02', 'R8', 'every hop of a link hands its message over with a blocking send: no try_send / send_timeout anywhere on the path')
def c02_r8(ctx):
    """A bounded channel that is full makes a blocking send wait (back-pressure); a non-blocking or timed send returns the
    message to the caller instead, and every caller on the link path either unwraps or logs: the message would be lost."""
    facts = ctx.facts
    lossy = {}     # lib fn path -> reason (calls a lossy primitive, directly or through a lib wrapper)
    prim = 0
    for f in facts.lib_fns():
        for bi, t in f.calls():
            p = t['callee'].get('path') or ''
            if ANY_SEND.match(p):
                prim += 1
                ctx.inst('%s|%s' % (f.path, p.rsplit('::', 1)[1]), {'at': t['at'], 'primitive': p, 'blocking': not LOSSY_SEND.match(p)})
                if LOSSY_SEND.match(p):
                    lossy[f.path] = (t['at'], p)
    if prim == 0:
        raise AnchorMissing('no call of a channel send primitive (flume::Sender::send) found in the crate')
    link_mod = re.compile(r'^<?(renoir::network::|renoir::block::|renoir::operator::end::|renoir::operator::start::|renoir::operator::iteration::)')

    def callers_of(fp):
        return sorted({g.path for g in facts.lib_fns() for _, t in g.calls()
                       if (t['callee'].get('resolved') or t['callee'].get('path') or '') == fp})
    for fp, (at, p) in sorted(lossy.items()):
        f = facts.fn(fp)
        # the function itself is a hop of a link, or it is a wrapper that a hop calls (followed through wrappers)
        seen, todo, hops = {fp}, [fp], []
        while todo:
            x = todo.pop()
            if link_mod.match(x):
                hops.append(x)
                continue
            for c in callers_of(x):
                if c not in seen:
                    seen.add(c)
                    todo.append(c)
        if not hops:
            ctx.note('%s uses %s but no link hop (network, block, start/end, iteration feedback) reaches it' % (fp, p))
            continue
        ctx.viol('%s|lossy-send|%s' % (fp, p.rsplit('::', 1)[1]), at,
                 '%s hands a message to a channel with `%s`, which gives the message back instead of waiting when the channel is full; '
                 'link hops that use it: %s. Links rely on blocking sends for loss-free back-pressure' % (f.name if f else fp, p, sorted(hops)), None)


def _split_tuple(txt):
    """top-level comma split of a rendered tuple `(a, b, ..)`"""
    if not (txt.startswith('(') and txt.endswith(')')):
        return None
    out, depth, cur = [], 0, ''
    for ch in txt[1:-1]:
        if ch in '([<{':
            depth += 1
        elif ch in ')]>}':
            depth -= 1
        if ch == ',' and depth == 0:
            out.append(cur.strip())
            cur = ''
        else:
            cur += ch
    out.append(cur.strip())
    return out


def ordered_partition(ctx):
    """A batch of stream elements that is cut in two (`split_off`) is still ONE stretch of the link's sequence: whoever forwards the
    parts must forward the head (what stays in the vector) before the tail (what split_off returns).  Followed through a tuple
    return into the caller: the call that consumes the head part dominates the call that consumes the tail part.  Zero sites on the
    pinned tree (positive control in the fixture crate)."""
    import re
    facts = ctx.facts
    n = 0
    for f in facts.lib_fns():
        if getattr(f, 'original', None) is not None or '::tests::' in f.path:
            continue
        for bi, t in f.calls():
            p = t['callee'].get('path') or ''
            if not p.endswith('::split_off') or not t['args'] or t['args'][0][0] == 'k':
                continue
            ty = f.locals[t['args'][0][1][0]]['ty']
            if 'StreamElement<' not in ty and 'NetworkMessage<' not in ty:
                continue
            n += 1
            sym = q.sym(facts, f)
            base = render(strip(sym.operand(t['args'][0]))).lstrip('&*')
            # (1) both parts leave through the returned tuple
            pos = None
            for blk in f.blocks:
                for s in blk['s']:
                    if s['k'] == 'assign' and s['lhs'] == [0]:
                        parts = _split_tuple(render(strip(sym.rvalue(s['rv']))))
                        if parts and len(parts) >= 2:
                            tails = [i for i, x in enumerate(parts) if 'split_off(' in x]
                            heads = [i for i, x in enumerate(parts) if 'split_off(' not in x and base in x]
                            if len(tails) == 1 and len(heads) == 1:
                                pos = (heads[0], tails[0])
            ctx.inst('partition|%s' % f.path, {'at': t['at'], 'vector': base, 'returned as (head index, tail index)': pos})
            if pos is None:
                raise Inconclusive('%s cuts a batch with split_off but the two parts cannot be followed' % f.path)
            callers = facts.callers_of(f.path)
            if not callers:
                ctx.note('%s has no caller' % f.path)
            for h, cb in callers:
                hs = q.sym(facts, h)
                cons = {'head': [], 'tail': []}
                for b3, t3 in h.calls():
                    for a in t3['args']:
                        r = render(strip(hs.operand(a)))
                        m = re.search(re.escape(f.name) + r'\(.*\)\.(\d+)$', r)
                        if m:
                            k = int(m.group(1))
                            if k == pos[0]:
                                cons['head'].append((b3, t3))
                            elif k == pos[1]:
                                cons['tail'].append((b3, t3))
                ctx.inst('partition|%s|consumed in %s' % (f.name, h.path), {'head consumers': [t_['at'] for _, t_ in cons['head']], 'tail consumers': [t_['at'] for _, t_ in cons['tail']]})
                if not cons['head'] or not cons['tail']:
                    raise Inconclusive('%s: the consumers of the two parts returned by %s cannot be identified' % (h.path, f.name))
                hb, tb = cons['head'][0][0], cons['tail'][0][0]
                if h.dominates(tb, hb) and tb != hb:
                    ctx.viol('%s|tail-first|%s' % (h.path, f.name), cons['tail'][0][1]['at'],
                             '%s forwards the part returned by split_off (the TAIL of the batch, element %d of the pair returned by %s) before the '
                             'part that stayed in the vector (the head): the elements of one batch reach the consumer in another order than '
                             'they were sent' % (h.path.rsplit('::', 1)[-1], pos[1], f.name), None)
                elif not h.dominates(hb, tb):
                    raise Inconclusive('%s: the order in which the two parts of a batch are forwarded is not fixed by dominance' % h.path)
    ctx.inst('partition|sites', {'split_off on element batches': n}, nontrivial=False)


@rule('C02', 'R9', 'a batch that is cut in two on a link path is forwarded head first (ordered partition through split_off, a tuple return and its caller)')
def c02_r9(ctx):
    ordered_partition(ctx)


@rule('C16', 'R5', 'a batch that is cut in two on a link path is forwarded head first (ordered partition through split_off, a tuple return and its caller)')
def c16_r5(ctx):
    ordered_partition(ctx)
