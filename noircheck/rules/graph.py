"""Execution-graph rules (scheduler, topology): C19.R1-R5, C03.R4, C02.R4b."""
import itertools
import re

from ..core import rule, Inconclusive
from ..facts import AnchorMissing, is_local
from ..symex import render, strip
from ..pathcond import show_dnf
from .. import q

TOPO = 'renoir::network::topology::NetworkTopology'
SCHED = 'renoir::scheduler::Scheduler'
GRAPH_FILES = ('src/scheduler.rs', 'src/network/', 'src/operator/end.rs', 'src/operator/route.rs', 'src/block/', 'src/environment.rs',
               'src/config.rs', 'src/operator/start/')
R2_EXC = {
    ('renoir::network::topology::NetworkTopology::replicas', 'iter'):
        'the replicas of a block as an unordered list: consumers build a keyed frontier / count them (order-insensitive)',
    ('renoir::operator::end::End::<OperatorChain, IndexFn>::setup_senders', 'into_values'):
        'order of the per-block sender groups: End visits every group for every element, the visiting order is not observable',
}


def in_cycle(fn, b):
    return any(b in fn.reachable_from(s) for s in fn.succ(b))


@rule('C19', 'R1', 'remote endpoint ports: coordinates are sorted before ports are assigned, one fresh offset per endpoint, every host records every link')
def c19_r1(ctx):
    facts = ctx.facts
    b = facts.method(TOPO, 'build')
    sym = q.sym(facts, b)
    sorts = [(bi, t) for bi, t in b.calls() if (t['callee'].get('path') or '').rsplit('::', 1)[-1] in ('sort', 'sort_unstable', 'sort_by', 'sort_by_key', 'sorted')]
    ins = [(bi, t) for bi, t in b.calls() if (t['callee'].get('path') or '').endswith('::insert') and 'demultiplexer_addresses' in render(strip(sym.operand(t['args'][0])))]
    if not ins:
        raise AnchorMissing('NetworkTopology::build does not insert into demultiplexer_addresses')
    ctx.inst('build|sort-before-ports', {'sort calls': [t['at'] for _, t in sorts], 'address inserts': [t['at'] for _, t in ins]})
    for bi, t in ins:
        ok = any(b.dominates(sb, bi) and 'DemuxCoord' in b.locals[q.base_local(b, st['args'][0]) or 0]['ty'] for sb, st in sorts)
        if not ok:
            ctx.viol('%s|unsorted-ports' % b.path, t['at'],
                     'demultiplexer ports are assigned while iterating `coords` without a dominating sort: hosts would derive '
                     'different addresses for the same endpoint (hash/insertion order)', None)
        if not in_cycle(b, bi):
            ctx.viol('%s|single-port' % b.path, t['at'], 'the port assignment is not inside the loop over all endpoints', None)
    # port = base_port + offset ; offset += 1 in the same loop
    adds = []
    for bi, blk in enumerate(b.blocks):
        if blk['cleanup']:
            continue
        for s in blk['s']:
            if s['k'] == 'assign' and s['rv']['r'] == 'bin' and s['rv']['op'] in ('AddWithOverflow', 'Add'):
                adds.append((bi, render(strip(sym.rvalue(s['rv']))), s['at']))
    ctx.inst('build|port-arithmetic', {'additions': [a for _, a, _ in adds]})
    if not any('base_port' in a and 'entry' in a for _, a, _ in adds):
        ctx.viol('%s|port-formula' % b.path, b.at, 'the endpoint port is no longer base_port + per-host offset', None)
    if not any(('1_u16' in a) and 'entry' in a and in_cycle(b, bi) for bi, a, _ in adds):
        ctx.viol('%s|offset-not-advanced' % b.path, b.at,
                 'the per-host port offset is not incremented by one for every endpoint: two endpoints of one host would share a port', None)
    # connect(): remote-to-remote links are recorded in `next` before the early return
    c = facts.method(TOPO, 'connect')
    csym = q.sym(facts, c)
    nxt = [(bi, t) for bi, t in c.calls() if (t['callee'].get('path') or '').endswith('::entry') and render(strip(csym.operand(t['args'][0]))) == 'self.next']
    rets = c.return_blocks()
    ctx.inst('connect|records-every-link', {'self.next.entry sites': [t['at'] for _, t in nxt], 'return blocks': len(rets)})
    if not nxt or not all(c.dominates(nxt[0][0], r) for r in rets):
        ctx.viol('%s|link-not-recorded' % c.path, c.at,
                 'NetworkTopology::connect can return without recording the link in `self.next`: hosts that are not an end of the '
                 'link would sort a different endpoint set and assign different ports', None)


@rule('C19', 'R2', 'hash-iteration audit: graph-building code iterates only seedless (Fx / IndexMap) maps, except frozen order-insensitive sites')
def c19_r2(ctx):
    facts = ctx.facts
    n = 0
    for f in facts.lib_fns():
        if not f.file.startswith(GRAPH_FILES) or f.file.startswith('src/network/tokio'):
            continue
        sym = None
        for bi, t in f.calls():
            c = t['callee']
            p = c.get('path') or ''
            full = c.get('full') or ''
            m = p.rsplit('::', 1)[-1]
            is_map = any(x in p for x in ('HashMap', 'HashSet', 'hash::map', 'hash::set')) or \
                (m == 'into_iter' and any(x in full.split(' as ')[0] for x in ('HashMap', 'HashSet')))
            if not is_map or m not in ('iter', 'values', 'keys', 'into_values', 'into_keys', 'drain', 'into_iter', 'iter_mut', 'values_mut', 'retain'):
                continue
            n += 1
            det = 'FxHasher' in full or 'fxhash' in full
            sym = sym or q.sym(facts, f)
            recv = render(strip(sym.operand(t['args'][0])))[:120] if t['args'] else ''
            ctx.inst('%s|%s|%s' % (f.path, m, t['at'].rsplit(':', 2)[0] + ':' + str(n)),
                     {'function': f.path, 'method': m, 'receiver': recv, 'hasher': 'seedless Fx' if det else 'RandomState', 'at': t['at']})
            if det:
                continue
            root = f.root if f.kind == 'closure' else f.path
            exc = R2_EXC.get((root, m))
            if exc:
                ctx.exception('%s.%s' % (root, m), exc)
            else:
                ctx.viol('%s|random-order|%s' % (root, m), t['at'],
                         '%s iterates a RandomState hash collection (`%s` on %s): the iteration order differs between hosts and runs, '
                         'anything positional derived from it makes the hosts disagree on the execution graph' % (root, m, recv), None)
    if n < 6:
        raise Inconclusive('only %d hash iterations found in the graph-building code (expected >= 6)' % n)


@rule('C19', 'R3', 'replica ids: each replica gets the current global counter, incremented once per replica; Limited fills host by host')
def c19_r3(ctx):
    facts = ctx.facts
    f = facts.method(SCHED, 'remote_block_info')
    sym = q.sym(facts, f)
    # global_ids.insert(coord, counter): the inserts whose key is a Coord and whose value is an integer local
    ins = [(bi, t) for bi, t in f.calls() if (t['callee'].get('path') or '').endswith('HashMap::<K, V, S, A>::insert') and len(t['args']) > 2
           and 'Coord::new' in render(strip(sym.operand(t['args'][1]))) and t['args'][2][0] != 'k'
           and f.locals[t['args'][2][1][0]]['ty'] in ('u64', 'usize')]
    if len(ins) < 4:
        raise AnchorMissing('remote_block_info: expected one global_ids.insert per replication arm (found %d)' % len(ins))
    incs = []
    for bi, blk in enumerate(f.blocks):
        if blk['cleanup']:
            continue
        for s in blk['s']:
            if s['k'] == 'assign' and s['rv']['r'] == 'bin' and s['rv']['op'] in ('AddWithOverflow', 'Add'):
                d = render(strip(sym.rvalue(s['rv'])))
                if '1_u64' in d and in_cycle(f, bi):
                    incs.append((bi, s['at'], d))
    ctx.inst('remote_block_info|global ids', {'insert sites': [t['at'] for _, t in ins], 'counter increments in loops': [a for _, a, _ in incs]})
    for bi, t in ins:
        val = render(strip(sym.operand(t['args'][2]))) if len(t['args']) > 2 else ''
        if not in_cycle(f, bi):
            ctx.viol('%s|id-once' % f.path, t['at'], 'a global id is assigned outside the per-replica loop', None)
        # an increment of the inserted counter follows in the same loop body
        cnt = q.base_local(f, t['args'][2])
        follows = [ib for ib, _, d in incs if ib in f.reachable_from(bi) and bi in f.reachable_from(ib)]
        if not follows:
            ctx.viol('%s|id-not-advanced|%s' % (f.path, t['at'].rsplit(':', 2)[1]), t['at'],
                     'global_ids.insert is not followed by an increment of the counter in the same loop: two replicas would '
                     'share a global index', None)
    # Limited(remaining): n = min(remaining, num_cores); remaining -= n
    subs = []
    for bi, blk in enumerate(f.blocks):
        if blk['cleanup']:
            continue
        for s in blk['s']:
            if s['k'] == 'assign' and s['rv']['r'] == 'bin' and s['rv']['op'] in ('SubWithOverflow', 'Sub'):
                subs.append((bi, render(strip(sym.rvalue(s['rv']))), s['at']))
    mins = [(bi, render(strip(('call', t['callee']['path'], tuple(sym.operand(a) for a in t['args']), '')))) for bi, t in f.calls()
            if (t['callee'].get('path') or '') == 'std::cmp::Ord::min']
    ctx.inst('remote_block_info|Limited', {'subtractions': [a for _, a, _ in subs], 'min calls': [m for _, m in mins]})
    if not any('num_cores' in m for _, m in mins):
        ctx.viol('%s|limited-min' % f.path, f.at, 'Limited replication no longer takes min(remaining, host cores) per host', None)
    if not any('min(' in a and in_cycle(f, bi) for bi, a, _ in subs):
        ctx.viol('%s|limited-remaining' % f.path, f.at,
                 'Limited replication does not subtract the replicas given to a host from the remaining budget: more than n '
                 'replicas would be created', None)
    # exhaustive match on Replication in clamp / intersect / remote_block_info (no wildcard): every variant is a switch target
    vs = facts.variants('renoir::block::Replication')
    for fn in (f, facts.method('renoir::block::Replication', 'clamp')):
        found = False
        for blk in fn.blocks:
            t = blk['t']
            if t['t'] == 'switch' and len(t['targets']) >= len(vs) - 1 and t.get('dty') == 'isize':
                found = True
                tgt_blocks = [tb for _, tb in t['targets']] + [t['otherwise']]
                ctx.inst('%s|match Replication' % fn.path.split('::')[-1], {'arms': len(t['targets']), 'variants': len(vs)})
        if not found:
            ctx.viol('%s|replication-match' % fn.path, fn.at, 'no exhaustive match over Replication in %s' % fn.path, None)


def eval_clause(c, asg):
    """truth of a clause of atoms under an assignment of the five wiring atoms; unknown atoms -> None"""
    for a in c:
        v = None
        if a[0] == 'bool':
            if 'is_only_one_strategy' in a[1]:
                v = asg['only_one'] == a[2]
            elif 'fragile' in a[1] or (a[1].endswith('.2')):
                v = asg['fragile'] == a[2]
        elif a[0] == 'cmp':
            txt = a[1] + ' ' + a[2]
            eq = a[3] == frozenset(['='])
            ne = a[3] == frozenset(['<', '>'])
            if 'len(' in txt and '1_usize' in txt:
                v = (asg['len1'] == eq) if (eq or ne) else None
            elif 'host_id' in a[1] and 'host_id' in a[2]:
                v = (asg['host'] == eq) if (eq or ne) else None
            elif 'replica_id' in a[1] and 'replica_id' in a[2]:
                v = (asg['rep'] == eq) if (eq or ne) else None
        if a[0] == 'is' and 'Iterator::next' in a[1]:
            continue
        if v is None:
            return None
        if not v:
            return False
    return True


def wiring_rule(ctx):
    facts = ctx.facts
    f = facts.method(SCHED, 'build_execution_graph')
    sites = q.calls(f, TOPO + '::connect')
    if not sites:
        raise AnchorMissing('build_execution_graph does not call NetworkTopology::connect')
    dnf = set()
    for bi, t in sites:
        dnf |= set(q.cond_of_block(facts, f, bi))
    shown = show_dnf(dnf)
    rows = []
    bad = []
    for vals in itertools.product([False, True], repeat=5):
        asg = dict(zip(['only_one', 'fragile', 'len1', 'host', 'rep'], vals))
        res = [eval_clause(c, asg) for c in dnf]
        if any(r is None for r in res):
            raise Inconclusive('build_execution_graph: a wiring condition uses an atom the rule does not know: %s' % shown)
        got = any(res)
        want = (not (asg['only_one'] or asg['fragile'])) or asg['len1'] or (asg['host'] and asg['rep'])
        rows.append((asg, got))
        if got != want:
            bad.append((asg, got, want))
    ctx.inst('build_execution_graph|wiring-table', {'connect sites': [t['at'] for _, t in sites], 'conditions': shown,
                                                    'rows': 32, 'rows that connect': sum(1 for _, g in rows if g)})
    if bad:
        asg, got, want = bad[0]
        ctx.viol('%s|wiring-predicate' % f.path, sites[0][1]['at'],
                 'the forward-link wiring predicate differs from connect <=> !(only_one || fragile) || |to| == 1 || (same host && same '
                 'replica): for %s the code %s but must %s (%d of 32 rows differ)'
                 % (asg, 'connects' if got else 'does not connect', 'connect' if want else 'not connect', len(bad)), {'conditions': shown})


@rule('C19', 'R4', 'forward-link wiring predicate (truth table over only_one, fragile, |to|=1, same host, same replica)')
def c19_r4(ctx):
    wiring_rule(ctx)


@rule('C03', 'R4', 'forward connections link a producer replica to the same-index consumer replica (or the single one)')
def c03_r4(ctx):
    wiring_rule(ctx)


@rule('C19', 'R5', 'sender metadata: a link is remote iff the destination host differs; mux iff remote; demux iff the endpoint is local')
def c19_r5(ctx):
    facts = ctx.facts
    c = facts.method(TOPO, 'connect')
    sym = q.sym(facts, c)
    # writes of to_remote = true
    wr = []
    for bi, blk in enumerate(c.blocks):
        if blk['cleanup']:
            continue
        for s in blk['s']:
            if s['k'] == 'assign' and not is_local(s['lhs']) and any(isinstance(e, list) and e[0] == 'f' and e[2] == 'to_remote' for e in s['lhs'][1:]):
                wr.append((bi, s))
    if not wr:
        raise AnchorMissing('NetworkTopology::connect never sets SenderMetadata.to_remote')
    for bi, s in wr:
        dnf = q.cond_of_block(facts, c, bi)
        ctx.inst('connect|to_remote', {'at': s['at'], 'conditions': show_dnf(dnf)})
        to_p = q.param(c, 'Coord', 1)       # connect(from, to, ..): the second Coord is the destination
        ok = q.cond_has(dnf, lambda a: a[0] == 'cmp' and (to_p + '.host_id') in (a[1] + a[2]) and a[3] == frozenset(['<', '>']))
        if not ok:
            ctx.viol('%s|to-remote-guard' % c.path, s['at'],
                     'to_remote is set on a path not guarded by "destination host != this host" (conditions: %s)' % show_dnf(dnf), None)
    # the function that turns the metadata of an endpoint into channels; its private helpers are inlined in this view, so the
    # multiplexer / demultiplexer primitives themselves are the anchors (not the names of the helpers that wrap them)
    cands = [f for f in facts.lib_fns() if f.impl_adt == TOPO and f.kind == 'assoc']
    rc = None
    for f in cands:
        v = facts.inl(f, mode='self')
        ps = [(t['callee'].get('path') or '') for _, t in v.calls()]
        if any(p_.endswith('MultiplexingSender::<Out>::get_sender') for p_ in ps) and any(p_.endswith('DemuxHandle::<In>::register') for p_ in ps):
            if rc is None or len(v.blocks) < len(rc.blocks):
                rc = v
    if rc is None:
        raise AnchorMissing('no method of NetworkTopology obtains both a multiplexed sender and registers with a demultiplexer')
    mux = q.calls_suffix(rc, 'MultiplexingSender::<Out>::get_sender')
    demux = q.calls_suffix(rc, 'DemuxHandle::<In>::register')
    for bi, t in mux:
        dnf = q.cond_of_block(facts, rc, bi)
        ctx.inst('register_channel|mux', {'function': rc.path, 'at': t['at'], 'conditions': show_dnf(dnf)[:3]})
        if not q.cond_has(dnf, lambda a: a[0] == 'bool' and 'to_remote' in a[1] and a[2] is True):
            ctx.viol('%s|mux-guard' % rc.path, t['at'], 'a multiplexed (TCP) sender is created for a link that is not marked to_remote', None)
    for bi, t in demux:
        dnf = q.cond_of_block(facts, rc, bi)
        ctx.inst('register_channel|demux', {'at': t['at'], 'conditions': show_dnf(dnf)})
        ok = q.cond_has(dnf, lambda a: a[0] == 'cmp' and 'host_id' in a[1] and 'host_id' in a[2] and a[3] == frozenset(['=']))
        if not ok:
            ctx.viol('%s|demux-guard' % rc.path, t['at'], 'a demultiplexer is registered for an endpoint that is not on this host', None)


@rule('C02', 'R5', 'a receiver endpoint can be obtained only once (second request panics); registered endpoints are unique')
def c02_r5(ctx):
    facts = ctx.facts
    g = facts.method(TOPO, 'get_receiver')
    sym = q.sym(facts, g)
    ins = [(bi, t) for bi, t in g.calls() if (t['callee'].get('path') or '').endswith('::insert') and 'used_receivers' in render(strip(sym.operand(t['args'][0])))]
    cont = [(bi, t) for bi, t in g.calls() if (t['callee'].get('path') or '').endswith('::contains') and 'used_receivers' in render(strip(sym.operand(t['args'][0])))]
    ctx.inst('get_receiver|single-use', {'contains': [t['at'] for _, t in cont], 'insert': [t['at'] for _, t in ins]})
    if not ins or not cont:
        ctx.viol('%s|multi-consumer' % g.path, g.at,
                 'NetworkTopology::get_receiver no longer records / checks used receivers: two operators could take the same '
                 'receiving end and split one link\'s element sequence', None)
        return
    rets = g.return_blocks()
    if not all(g.dominates(ins[0][0], r) and g.dominates(cont[0][0], ins[0][0]) for r in rets):
        ctx.viol('%s|unchecked-path' % g.path, g.at, 'get_receiver has a path to return that skips the used_receivers check/insert', None)
    # the `contains == true` branch must diverge
    p = q.pe(facts, g)
    dnf = q.cond_of_block(facts, g, ins[0][0])
    if not dnf:
        ctx.viol('%s|always-panics' % g.path, g.at, 'get_receiver cannot reach the insert', None)


def _ret_table(facts, f):
    """{target block: (rendered value assigned to _0, simplified DNF of the paths reaching it)}"""
    from ..pathcond import simplify
    sym = q.sym(facts, f)
    tg = {}
    for bi, blk in enumerate(f.blocks):
        if blk['cleanup']:
            continue
        for s in blk['s']:
            if s['k'] == 'assign' and s['lhs'] == [0]:
                tg[bi] = render(strip(sym.rvalue(s['rv'])))
        t = blk['t']
        if t['t'] == 'call' and t.get('dest') == [0]:
            tg[bi] = render(strip(('call', t['callee']['path'], tuple(sym.operand(a) for a in t['args']), '')))
    res = q.pe(facts, f).paths(lambda b, st: b in tg)
    by = {}
    for c, tb in res:
        by.setdefault(tb, []).append(c)
    return {tb: (tg[tb], simplify(cs)) for tb, cs in by.items()}


def _clause_holds(c, asg):
    """truth of a clause of is / isnot atoms under {place: variant}; atoms about other places make it None (unknown)"""
    for a in c:
        if a[0] == 'is' and a[1] in asg:
            if asg[a[1]] != a[2]:
                return False
        elif a[0] == 'isnot' and a[1] in asg:
            if asg[a[1]] in a[2]:
                return False
        else:
            return None
    return True


def intersect_table(ctx):
    """Replication::intersect(a, b) is how `replication(One)` (fold, reduce, zip, collect, window_all ...) narrows a block: the result
    must be the narrower of the two for all 16 combinations, in particular x ∩ One = One for every x"""
    facts = ctx.facts
    REPL = 'renoir::block::Replication'
    vs = facts.variants(REPL)
    # --- intersect(a, b): the narrower of the two, for all 16 combinations
    g = facts.method(REPL, 'intersect')
    tab = _ret_table(facts, g)
    places = set()
    for tb, (val, dnf) in tab.items():
        for c in dnf:
            places.update(a[1] for a in c if a[0] in ('is', 'isnot'))
    if len(places) != 2:
        raise Inconclusive('Replication::intersect: expected tests on exactly two values, found %s' % sorted(places))
    pa, pb = sorted(places)
    rank = ['One', 'Host', 'Limited', 'Unlimited']
    rows = 0
    for va in vs:
        for vb in vs:
            outs = set()
            for tb, (val, dnf) in tab.items():
                for c in dnf:
                    if _clause_holds(c, {pa: va, pb: vb}) is True:
                        outs.add(val)
            rows += 1
            exp = min(va, vb, key=rank.index)
            ok = len(outs) == 1 and list(outs)[0].startswith('Replication::%s(' % exp)
            if ok and va == vb == 'Limited':
                ok = 'Ord::min(' in list(outs)[0]
            if not ok:
                ctx.viol('%s|intersect|%s,%s' % (g.path, va, vb), g.at, 'Replication::intersect(%s, %s) yields %s; the narrower of the two (%s%s) is required: '
                         'a block restricted by two constraints must satisfy both' % (va, vb, sorted(outs), exp, ' with min(n, m)' if va == vb == 'Limited' else ''), None)
    ctx.inst('intersect|table', {'rows': rows, 'returns': sorted(v for v, _ in tab.values())})


@rule('C09', 'R6', 'zip runs on one replica whatever the inputs\' replication: Replication::intersect(x, One) = One (full 16-row table)')
def c09_r6(ctx):
    intersect_table(ctx)


@rule('C07', 'R7', 'global folds run on one replica whatever the input\'s replication: Replication::intersect(x, One) = One (full 16-row table)')
def c07_r7(ctx):
    intersect_table(ctx)


@rule('C01', 'R5', 'replication(One) funnels really yield one replica: Replication::intersect is the narrower of its arguments (full 16-row table)')
def c01_r5(ctx):
    intersect_table(ctx)


@rule('C19', 'R10', 'placement table: replicas per block = all cores (Unlimited), min(n, cores) (Limited), one per host (Host), one (One); Replication::intersect keeps the narrower one; local ids = replica index')
def c19_r10(ctx):
    facts = ctx.facts
    REPL = 'renoir::block::Replication'
    vs = facts.variants(REPL)
    # --- clamp(n)
    f = facts.method(REPL, 'clamp')
    tab = _ret_table(facts, f)
    seen = {}
    for tb, (val, dnf) in tab.items():
        for c in dnf:
            for v in vs:
                if _clause_holds(c, {'self': v}) is True or _clause_holds(c, {'*self': v}) is True:
                    seen.setdefault(v, set()).add(val)
    ctx.inst('clamp|table', {v: sorted(x) for v, x in seen.items()})
    want = {'Unlimited': lambda x: re.fullmatch(r'arg\d', x) is not None,
            'Limited': lambda x: 'Ord::min(' in x and re.search(r'arg\d', x) and 'Limited' in x,
            'Host': lambda x: x.startswith('1_'), 'One': lambda x: x.startswith('1_')}
    for v in vs:
        vals = seen.get(v)
        if not vals:
            raise Inconclusive('Replication::clamp: no return value found for variant %s' % v)
        if v in want and not all(want[v](x) for x in vals):
            ctx.viol('%s|clamp|%s' % (f.path, v), f.at, 'Replication::clamp returns `%s` for %s; required: Unlimited -> n, Limited(q) -> min(n, q), '
                     'Host -> 1, One -> 1 (the number of replicas of a block on a host)' % (sorted(vals), v), None)
    intersect_table(ctx)
    # --- local placement: replicas 0..clamp(replication, parallelism), global id == replica index
    lf = facts.method(SCHED, 'local_block_info')
    sym = q.sym(facts, lf)
    maps = [(bi, t) for bi, t in lf.calls() if (t['callee'].get('path') or '') == 'std::iter::Iterator::map']
    ranges = [render(strip(sym.operand(t['args'][0]))) for bi, t in maps]
    ctx.inst('local_block_info|ranges', {'ranges': ranges})
    if not ranges:
        raise AnchorMissing('local_block_info no longer maps a range of replica indexes')
    for bi, t in maps:
        r = render(strip(sym.operand(t['args'][0])))
        if not (r.startswith('Range::Range(0_') and 'Replication::clamp(' in r and 'replication' in r and 'parallelism' in r):
            ctx.viol('%s|local-range' % lf.path, t['at'], 'local replicas are enumerated over `%s`, not over 0..replication.clamp(parallelism)' % r, None)
    for gcl in facts.closures_of(lf):
        s2 = q.sym(facts, gcl)
        news = q.calls_suffix(gcl, 'Coord::new')
        for bi, t in news:
            args = [render(strip(s2.operand(a))) for a in t['args']]
            ctx.inst('local_block_info|coord|%s' % gcl.path.rsplit('::', 1)[-1], {'Coord::new': args})
            if not re.fullmatch(r'arg\d', args[2]):
                ctx.viol('%s|local-coord' % lf.path, t['at'], 'the replica id of a local coordinate is `%s`, not the enumerated index' % args[2], None)
        for blk in gcl.blocks:
            for s in blk['s']:
                if s['k'] == 'assign' and s['lhs'] == [0] and s['rv']['r'] == 'agg' and len(s['rv'].get('o', [])) == 2:
                    gid = render(strip(s2.operand(s['rv']['o'][1])))
                    co = render(strip(s2.operand(s['rv']['o'][0])))
                    m = re.search(r', (arg\d)\)$', co)
                    ctx.inst('local_block_info|global-id', {'coord': co, 'id': gid})
                    if not m or not re.search(r'(?<![\^\w])' + m.group(1) + r'\b', gid):
                        ctx.viol('%s|local-global-id' % lf.path, s['at'], 'a local replica\'s global id is `%s`, which does not depend on its replica index `%s`: '
                                 'replicas of one block would share a global index' % (gid, m.group(1) if m else co), None)
                    elif gid != m.group(1):
                        ctx.note('local global id is `%s` (a function of the replica index, injectivity not decided)' % gid)
    # --- remote placement: how many replicas each host gets per variant, and where One is placed
    rf = facts.method(SCHED, 'remote_block_info')
    sym = q.sym(facts, rf)
    arms = {}
    for bi, t in q.calls_suffix(rf, 'Coord::new'):
        dnf = q.cond_of_block(facts, rf, bi)
        args = [render(strip(sym.operand(a))) for a in t['args']]
        for v in vs:
            if dnf and all(any(a[0] == 'is' and a[2] == v and 'replication' in a[1] for a in c) for c in dnf):
                arms.setdefault(v, []).append((t['at'], args, dnf))
    ctx.inst('remote_block_info|arms', {v: [(at, a[1:]) for at, a, _ in l] for v, l in arms.items()})
    if set(arms) != set(vs):
        raise Inconclusive('remote_block_info: cannot attribute the Coord::new sites to the Replication variants (found %s)' % sorted(arms))
    for v, l in arms.items():
        for at, args, dnf in l:
            m = re.search(r'Range::Range\(0_\w+, (.*)\)\)\) as Some\)\.0$', args[2])
            if not m:
                ctx.viol('%s|remote-index|%s' % (rf.path, v), at, 'replica ids of a host do not enumerate a range starting at 0 (`%s`)' % args[2], None)
                continue
            n = m.group(1)
            per_host = 'enumerate' in args[1]
            if v == 'Unlimited' and not ('num_cores' in n and 'min(' not in n and per_host):
                ctx.viol('%s|remote-count|Unlimited' % rf.path, at, 'Unlimited replication creates `%s` replicas per host (required: the host\'s num_cores, on every host)' % n, None)
            if v == 'Limited' and not ('Ord::min(' in n and 'num_cores' in n and per_host):
                ctx.viol('%s|remote-count|Limited' % rf.path, at, 'Limited replication creates `%s` replicas per host (required: min(remaining, num_cores))' % n, None)
            if v == 'Host' and not (n.startswith('1_') and per_host):
                ctx.viol('%s|remote-count|Host' % rf.path, at, 'Host replication creates `%s` replicas (required: exactly one on every host)' % n, None)
            if v == 'One' and not (n.startswith('1_') and not per_host and 'host_id' not in args[1]):
                ctx.viol('%s|remote-count|One' % rf.path, at, 'One replication creates `%s` replicas on host `%s` (required: exactly one, on a host every machine '
                         'agrees on)' % (n, args[1]), None)


@rule('C15', 'R6', 'the partition index the parallel sources use is a distinct index in [0, #replicas): global ids are handed out by one running counter')
def c15_r6(ctx):
    """C15.R1 shows that sources split by metadata.global_id / replicas.len(); that is an exact split only if the global ids of a
    block are the distinct numbers 0..n-1 whatever the hosts' core counts (the scheduler's side of the same contract)"""
    c19_r3(ctx)
