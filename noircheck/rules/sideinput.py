"""Binary start / side-input cache rules: C11.R2, C11.R3, C05.R5, C04.R5 (E4 tables over BinaryStartReceiver)."""
from ..core import rule, Inconclusive
from ..facts import AnchorMissing, SE, is_local
from ..symex import render, strip
from ..pathcond import show_dnf
from .. import q

BSR = 'renoir::operator::start::binary::BinaryStartReceiver'
SIDE = 'renoir::operator::start::binary::SideReceiver'


def has(c, kind, text, truth=None):
    for a in c:
        if a[0] == kind and text in str(a[1]) and (truth is None or a[2] is truth or a[2] == truth):
            return True
    return False


def every(dnf, pred):
    return bool(dnf) and all(pred(c) for c in dnf)


def process_side(facts):
    """(process_side, the body that handles one element of the batch): the closure of the iterator chain, or process_side itself when
    the batch is walked with a `for` loop"""
    ps = facts.method(BSR, 'process_side')
    def pushes_mapped(g):
        sy = q.sym(facts, g)
        for _, t in g.calls():
            if (t['callee'].get('path') or '').endswith('Vec::<T, A>::push') and len(t['args']) > 1:
                x = strip(sy.operand(t['args'][1]))
                if x and x[0] == 'call' and x[1].endswith('StreamElement::<Out>::map'):
                    return True
        return False
    cl = [g for g in facts.family(ps) if pushes_mapped(g)]
    if not cl:
        raise AnchorMissing('process_side: no body pushes the wrapped element (`item.map(wrap)`)')
    return ps, cl[0]


@rule('C11', 'R2', 'side-input cache content: batches are cached iff the side is cached; Terminate never enters a cached batch')
def c11_r2(ctx):
    cache_content(ctx)


@rule('C05', 'R5', 'end-of-side markers: LeftEnd/RightEnd is inserted once all replicas of the side ended, before that FlushAndRestart')
def c05_r5(ctx):
    cache_content(ctx)


def cache_content(ctx):
    facts = ctx.facts
    ps, g = process_side(facts)
    sym = q.sym(facts, g)
    pushes = [(bi, t) for bi, t in g.calls() if (t['callee'].get('path') or '').endswith('Vec::<T, A>::push') and len(t['args']) > 1]
    item_push = end_push = None
    item_s = None
    end_p = q.param(ps, '^renoir::operator::start::binary::BinaryElement<')       # the end-of-side marker handed in by the caller
    for bi, t in pushes:
        term = strip(sym.operand(t['args'][1]))
        v = render(term)
        if term[0] == 'call' and term[1].endswith('StreamElement::<Out>::map') and term[2]:
            item_push = (bi, t)
            item_s = render(strip(term[2][0]))      # the element of the batch being handled (receiver of `.map(wrap)`)
        elif 'StreamElement::Item(' in v and end_p in v:
            end_push = (bi, t)
    if not item_push or not end_push:
        raise AnchorMissing('process_side: cannot identify the push of the wrapped item and of the end marker')

    def on_item(a):
        return a[0] in ('is', 'isnot', 'isin') and a[1] == item_s

    def loop_atom(a):
        return a[0] in ('is', 'isnot', 'isin') and 'Iterator::next' in str(a[1]) and not on_item(a)
    dnf = q.cond_of_block(facts, g, item_push[0])
    ctx.inst('process_side|push(item.map(wrap))', {'body': g.path, 'element': item_s[:80], 'at': item_push[1]['at'], 'conditions': show_dnf(dnf)})
    for c in dnf:
        term = any(a[0] == 'is' and a[1] == item_s and a[2] == 'Terminate' for a in c)
        if term and not has(c, 'bool', '.cached', False):
            ctx.viol('%s|terminate-cached' % ps.path, item_push[1]['at'],
                     'process_side can put Terminate into the batch of a cached side (conditions: %s): the replayed cache would end the '
                     'loop after its first round' % show_dnf([c]), None)
        if not term:
            extra = [a for a in c if not on_item(a) and not loop_atom(a)]
            if extra:
                ctx.viol('%s|conditional-forward' % ps.path, item_push[1]['at'],
                         'process_side forwards a non-Terminate element only under %s' % show_dnf([frozenset(extra)]), None)
    # a non-cached side must still forward Terminate
    if not any(any(a[0] == 'is' and a[2] == 'Terminate' for a in c) and has(c, 'bool', '.cached', False) for c in dnf):
        ctx.viol('%s|terminate-dropped' % ps.path, item_push[1]['at'], 'process_side never forwards Terminate of a non-cached side', None)
    # end marker
    dnf = q.cond_of_block(facts, g, end_push[0])
    ctx.inst('process_side|push(end marker)', {'at': end_push[1]['at'], 'conditions': show_dnf(dnf)})
    ok = every(dnf, lambda c: any(a[0] == 'is' and a[2] == 'FlushAndRestart' for a in c)
               and any(a[0] == 'cmp' and 'missing_flush_and_restart' in (a[1] + a[2]) and '0_usize' in (a[1] + a[2]) and a[3] == frozenset(['=']) for a in c))
    if not ok:
        ctx.viol('%s|end-marker-guard' % ps.path, end_push[1]['at'],
                 'the end-of-side marker must be pushed exactly when a FlushAndRestart brings missing_flush_and_restart to 0 '
                 '(conditions: %s)' % show_dnf(dnf), None)
    if not g.dominates(end_push[0], item_push[0]) and end_push[0] not in g.reachable_from(0, avoid=[item_push[0]]):
        pass
    # "after" within the handling of one element: do not go round the loop that fetches the next element
    heads = [bi for bi, t in g.calls() if (t['callee'].get('path') or '') == 'std::iter::Iterator::next']
    if item_push[0] in g.reachable_from(0, avoid=[]) and end_push[0] in g.reachable_from(item_push[0], avoid=heads):
        ctx.viol('%s|end-marker-order' % ps.path, end_push[1]['at'],
                 'the end-of-side marker can be pushed after the FlushAndRestart it belongs to', None)
    # counters: decrement by one on the matching variant only
    for field, variant in (('missing_flush_and_restart', 'FlushAndRestart'), ('missing_terminate', 'Terminate')):
        decs = []
        for bi, blk in enumerate(g.blocks):
            if blk['cleanup']:
                continue
            for s in blk['s']:
                if s['k'] == 'assign' and s['rv']['r'] == 'bin' and s['rv']['op'] in ('SubWithOverflow', 'Sub'):
                    d = render(strip(sym.rvalue(s['rv'])))
                    if field in d:
                        decs.append((bi, s, d))
        ctx.inst('process_side|%s' % field, {'decrements': [(s['at'], d) for _, s, d in decs]})
        if len(decs) != 1 or '1_usize' not in decs[0][2]:
            ctx.viol('%s|counter|%s' % (ps.path, field), g.at, 'process_side must decrement %s by one at exactly one site' % field, None)
            continue
        dnf = q.cond_of_block(facts, g, decs[0][0])
        if not every(dnf, lambda c: any(a[0] == 'is' and a[2] == variant for a in c)):
            ctx.viol('%s|counter-edge|%s' % (ps.path, field), decs[0][1]['at'],
                     '%s is decremented on a path not guarded by "item is %s" (conditions: %s)' % (field, variant, show_dnf(dnf)), None)
    # the batch is cached iff side.cached, and the pointer skips what was just delivered live
    psym = q.sym(facts, ps)
    cp = [(bi, t) for bi, t in ps.calls() if (t['callee'].get('path') or '').endswith('Vec::<T, A>::push') and 'cache' in render(strip(psym.operand(t['args'][0])))]
    if not cp:
        ctx.viol('%s|no-cache-push' % ps.path, ps.at, 'process_side never stores the batch of a cached side', None)
    for bi, t in cp:
        dnf = q.cond_of_block(facts, ps, bi)
        ctx.inst('process_side|cache.push', {'at': t['at'], 'conditions': show_dnf(dnf)})
        if not every(dnf, lambda c: has(c, 'bool', '.cached', True)):
            ctx.viol('%s|cache-guard' % ps.path, t['at'], 'a batch is stored in the cache of a side that is not cached', None)
    ptr = []
    for bi, blk in enumerate(ps.blocks):
        for s in blk['s']:
            if s['k'] == 'assign' and not is_local(s['lhs']) and any(isinstance(e, list) and e[0] == 'f' and e[2] == 'cache_pointer' for e in s['lhs'][1:]):
                ptr.append((bi, s, render(strip(psym.rvalue(s['rv'])))))
    ctx.inst('process_side|cache_pointer', {'writes': [(s['at'], v) for _, s, v in ptr]})
    if not any('len(' in v and 'cache' in v for _, _, v in ptr):
        ctx.viol('%s|pointer' % ps.path, ps.at,
                 'after delivering a live batch of a cached side the cache pointer is not moved to cache.len(): the batch would be '
                 'delivered twice in the first round', None)


@rule('C11', 'R3', 'replay discipline: cache replayed only when complete, first message of a round asked from the other side, end re-synthesised')
def c11_r3(ctx):
    replay_discipline(ctx)


@rule('C04', 'R5', 'binary start: Terminate of a cached side is re-synthesised once both sides terminated (one per cached replica)')
def c04_r5(ctx):
    replay_discipline(ctx, only_terminate=True)


def replay_discipline(ctx, only_terminate=False):
    facts = ctx.facts
    sel = facts.method(BSR, 'select')
    sym = q.sym(facts, sel)
    # ---- synthetic Terminate batch
    nb = [(bi, t) for bi, t in sel.calls() if (t['callee'].get('path') or '').endswith('NetworkMessage::<T>::new_batch')]
    if not nb:
        raise AnchorMissing('BinaryStartReceiver::select builds no synthetic batch')
    for bi, t in nb:
        dnf = q.cond_of_block(facts, sel, bi)
        ctx.inst('select|synthetic-terminate', {'at': t['at'], 'conditions': show_dnf(dnf)[:4]})
        if not every(dnf, lambda c: has(c, 'bool', 'is_terminated(&self.left)', True) and has(c, 'bool', 'is_terminated(&self.right)', True)):
            ctx.viol('%s|synthetic-terminate-guard' % sel.path, t['at'],
                     'the synthetic Terminate batch is emitted while a side has not terminated yet', None)
        # its elements are Terminate
        mk = [g for g in facts.closures_of(sel) if q.aggregates(g, SE, 'Terminate')]
        if not mk:
            ctx.viol('%s|synthetic-terminate-content' % sel.path, t['at'], 'the synthetic batch does not consist of Terminate elements', None)
    # number of terminates = instances of the cached side
    cnt_defs = []
    for bi, blk in enumerate(sel.blocks):
        if blk['cleanup']:
            continue
        for s in blk['s']:
            if s['k'] == 'assign' and is_local(s['lhs']) and sel.locals[s['lhs'][0]]['ty'] == 'usize' and s['rv']['r'] == 'use':
                v = render(strip(sym.rvalue(s['rv'])))
                if v.endswith('.instances') or v == '0_usize':
                    cnt_defs.append((bi, s, v))
    tab = {}
    for bi, s, v in cnt_defs:
        dnf = q.cond_of_block(facts, sel, bi)
        tab[v] = show_dnf(dnf)[:3]
        side = 'left' if 'left' in v else ('right' if 'right' in v else None)
        if side and not every(dnf, lambda c: has(c, 'bool', 'self.%s.cached' % side, True)):
            ctx.viol('%s|terminate-count|%s' % (sel.path, side), s['at'],
                     'the number of re-synthesised Terminate elements is taken from self.%s.instances on a path where that side is '
                     'not the cached one' % side, None)
    ctx.inst('select|num_terminates', {'definitions': tab})
    if not any('left.instances' in v for _, _, v in cnt_defs) or not any('right.instances' in v for _, _, v in cnt_defs):
        ctx.viol('%s|terminate-count-missing' % sel.path, sel.at,
                 'select no longer re-synthesises one Terminate per replica of the cached side: downstream would wait forever for '
                 'the missing end markers', None)
    if only_terminate:
        return
    # ---- cached branch
    for side in ('left', 'right'):
        nc = [(bi, t) for bi, t in q.calls_suffix(sel, 'SideReceiver::<Out, Item>::next_cached_item') if render(strip(sym.operand(t['args'][0]))) == 'self.' + side]
        if not nc:
            ctx.viol('%s|no-replay|%s' % (sel.path, side), sel.at, 'select never replays the cache of the %s side' % side, None)
            continue
        for bi, t in nc:
            dnf = q.cond_of_block(facts, sel, bi)
            ctx.inst('select|next_cached_item(%s)' % side, {'at': t['at'], 'clauses': len(dnf), 'sample': show_dnf(dnf)[:2]})
            if not every(dnf, lambda c: has(c, 'bool', 'self.%s.cached' % side, True) and has(c, 'bool', 'self.%s.cache_full' % side, True)
                         and has(c, 'bool', 'cache_finished(&self.%s)' % side, False)):
                ctx.viol('%s|replay-guard|%s' % (sel.path, side), t['at'],
                         'the cache of the %s side is replayed on a path not guarded by cached && cache_full && !cache_finished(): '
                         'a round could see an incomplete or exhausted side input' % side, None)
    # ---- first message of a round goes to the non-cached side
    recvs = q.calls_suffix(sel, 'SideReceiver::<Out, Item>::recv')
    first = []
    for bi, t in recvs:
        dnf = q.prune_contradictions(sel, q.cond_of_block(facts, sel, bi))
        # the receive sites of the first-message branch: reached with first_message true (or just set), never false
        if any(has(c, 'bool', 'self.first_message', True) for c in dnf) and not any(has(c, 'bool', 'self.first_message', False) for c in dnf):
            first.append((bi, t, dnf))
    ctx.inst('select|first-message', {'recv sites under first_message': [(t['at'], render(strip(sym.operand(t['args'][0])))) for _, t, _ in first]})
    if len(first) != 2:
        ctx.viol('%s|first-message-sites' % sel.path, sel.at, 'expected two receive sites for the first message of a round, found %d' % len(first), None)
    for bi, t, dnf in first:
        side = render(strip(sym.operand(t['args'][0])))
        if side == 'self.right' and not every(dnf, lambda c: has(c, 'bool', 'self.left.cached', True)):
            ctx.viol('%s|first-message|right' % sel.path, t['at'], 'the first message of a round is asked from the right side although the left side is not the cached one', None)
        if side == 'self.left' and not every(dnf, lambda c: has(c, 'bool', 'self.left.cached', False)):
            ctx.viol('%s|first-message|left' % sel.path, t['at'], 'the first message of a round is asked from the left side although it is the cached one: the replay would start before knowing whether a new round exists', None)
    # ---- both sides are watched together only while neither has ended its iteration: a side that already delivered all
    #      its FlushAndRestart must not be read again before the round is over (its next batch belongs to the next round)
    both = [(bi, t) for bi, t in sel.calls() if (t['callee'].get('path') or '').endswith('::select') or (t['callee'].get('path') or '').endswith('::select_timeout')]
    if not both:
        raise AnchorMissing('BinaryStartReceiver::select never selects over both inputs')
    for bi, t in both:
        dnf = q.prune_contradictions(sel, q.cond_of_block(facts, sel, bi))
        okl = every(dnf, lambda c: has(c, 'bool', 'is_ended(&self.left)', False))
        okr = every(dnf, lambda c: has(c, 'bool', 'is_ended(&self.right)', False))
        ctx.inst('select|two-sided receive|%s' % t['at'], {'guarded by !left.is_ended()': okl, 'guarded by !right.is_ended()': okr})
        if not okl or not okr:
            ctx.viol('%s|reads-ended-side' % sel.path, t['at'],
                     'both inputs are read together on a path where one of them is not known to be still inside its iteration '
                     '(!is_ended()): a batch of the next round can be consumed while the previous round is not over (the side input\'s '
                     'Terminate is still missing), so the round counters underflow and the cache is never replayed', None)
    # ---- reset: only the cached side rewinds
    rs = facts.method(SIDE, 'reset')
    rsym = q.sym(facts, rs)
    for bi, si, f, s in q.self_writes(rs):
        dnf = q.cond_of_block(facts, rs, bi)
        v = render(strip(rsym.rvalue(s['rv'])))
        ctx.inst('SideReceiver::reset|%s' % f, {'value': v, 'conditions': show_dnf(dnf)})
        if f in ('cache_full', 'cache_pointer') and not every(dnf, lambda c: has(c, 'bool', 'self.cached', True)):
            ctx.viol('%s|reset|%s' % (rs.path, f), s['at'], 'reset() rewinds the cache of a side that is not cached', None)
        if f == 'cache_full' and v != 'true':
            ctx.viol('%s|reset|cache_full-value' % rs.path, s['at'], 'reset() must mark the cache of a cached side as complete', None)
        if f == 'cache_pointer' and v != '0_usize':
            ctx.viol('%s|reset|pointer-value' % rs.path, s['at'], 'reset() must rewind the cache pointer to 0', None)
    fs = {f for _, _, f, _ in q.self_writes(rs)}
    if not {'cache_full', 'cache_pointer', 'missing_flush_and_restart'} <= fs:
        ctx.viol('%s|reset|incomplete' % rs.path, rs.at, 'reset() no longer resets %s' % sorted({'cache_full', 'cache_pointer', 'missing_flush_and_restart'} - fs), None)


@rule('C11', 'R5', 'the side-input cache is an append-only log of the batches in arrival order: recorded batches are never modified, reordered or removed before the loop ends')
def c11_r5(ctx):
    """Every later round replays `cache[0..]` front to back (C11.R3), so the replay equals what the first round saw only if the log keeps
    the batches as they arrived: a new batch goes to the END (push, or merged into the LAST entry), nothing else touches the entries.
    Merging a batch into an earlier entry of the same sender moves its elements - and the end-of-side marker it may carry - ahead of
    other senders' batches."""
    facts = ctx.facts
    APPEND = {'push', 'last_mut', 'extend', 'extend_from_slice', 'reserve', 'push_back'}
    READ = {'len', 'is_empty', 'iter', 'get', 'index', 'first', 'last', 'as_slice', 'deref', 'clone', 'capacity', 'clear', 'truncate', 'shrink_to_fit', 'into_iter', 'as_ref', 'borrow'}
    fns = [f for f in facts.lib_fns() if (f.impl_adt or '').startswith('renoir::operator::start::binary::') and f.kind == 'assoc' and getattr(f, 'original', None) is None]
    seen = {}
    for f0 in fns:
        for f in [f0] + facts.closures_of(f0):
            sym = q.sym(facts, f)
            for bi, t in f.calls():
                if not t['args']:
                    continue
                recv = render(strip(sym.operand(t['args'][0])))
                # the call's receiver is the cache vector itself (possibly behind a reborrow / deref), not an element taken out of it
                import re as _re
                m = _re.fullmatch(r'[&*]*(?:Deref(?:Mut)?::deref(?:_mut)?\()?[&*]*([\w.^*]*\.cache)\)?', recv)
                if not m:
                    continue
                name = (t['callee'].get('path') or '?').rsplit('::', 1)[-1]
                seen.setdefault(name, []).append(t['at'])
                if name in APPEND or name in READ:
                    continue
                ctx.viol('%s|cache-mutated|%s' % (f0.path, name), t['at'],
                         'the side-input cache is accessed with `%s`: a recorded batch can be modified / reordered / removed, so a replayed round no '
                         'longer presents the side input in the order (and with the end-of-side marker where) the first round saw it' % name, None)
    ctx.inst('SideReceiver.cache|mutators', {k: v[:3] for k, v in seen.items()})
    if 'push' not in seen:
        raise AnchorMissing('no push into the side-input cache found')
