"""Per-property claim texts used in evidence and MANIFEST (what is decided, what is not)."""

CLAIMS = {}


def claim(pid, decides, not_decided, explanation=None, assumptions=None):
    CLAIMS[pid] = {
        'decides': decides,
        'not_decided': not_decided,
        'explanation': explanation or (
            'Static analysis of the type-checked MIR of /repo (rustc_private driver factgen + Python rule engine). '
            'Decides these structural necessary conditions of the property on every path of the code: ' + decides +
            ' NOT decided (behavioural remainder): ' + not_decided),
        'assumptions': assumptions or [],
    }


claim('C05',
      'for every impl of Operator::next that reads an upstream operator (abstract automaton over all activations, '
      'self-state from the constructor, upstream assumed to obey the protocol): FlushAndRestart and Terminate received '
      'are returned before the next input is requested, never fabricated, Terminate only directly after a '
      'FlushAndRestart; sources return Terminate only after FlushAndRestart; state fields written on data edges are '
      'drained/reset on the path to `return FlushAndRestart`; window managers drain all slots at the end of an iteration; '
      'Start counts one marker per upstream replica.',
      'protocol conformance of user closures (rich_map_custom, foreign operators); numeric counters of Start are checked '
      'structurally (initialised from the replica count, decremented on the matching edge, compared with 0), not evaluated.')

NOT_APPLICABLE = {}

claim('C04',
      'Terminate accounting that termination depends on: every operator returns Terminate exactly when it received it and never asks '
      'upstream again afterwards (operator automata); Start decrements its end-marker counters only on the matching item, by one, '
      'initialised from the upstream replica list, and returns the marker only at zero.',
      'absence of back-pressure deadlocks / lost wake-ups under all schedules (bounded-channel cycles), thread exit, sink handle semantics at run time.')
claim('C17',
      'every WatermarkFrontier::update result is consumed and reaches a Watermark construction; a replica that ended its iteration is '
      'entered as +infinity for the batch sender on the FlushAndRestart edge; the frontier is rebuilt in setup and reset per iteration; '
      'every operator forwards a received Watermark before asking for more input except a frozen list of absorbers.',
      '"before any later element" under concrete interleavings; the numeric minimum itself.')
claim('C06',
      'frontier = std::cmp::min over all replicas and None until every replica has a watermark; a stored replica watermark is only '
      'overwritten by a strictly larger one; update announces only the newly computed frontier.',
      'safety for arbitrary numeric timestamp sequences through arbitrary operator compositions.')
claim('C10',
      'Start raises wait_for_state and advances state_generation by 2 on every `return FlushAndRestart`, and every received element is '
      'returned only after the wait_for_state test whose true branch waits for state_generation.',
      'the fixed-point semantics and the state seen under all link delays.')
claim('C18',
      'FlushBatch is forwarded by every operator (frozen absorbers: Fold, KeyedFold); Start turns a receive timeout into exactly one '
      'FlushBatch (latch already_timed_out) iff a max delay is configured, then blocks.',
      'the latency bound ("small multiple of max delay") and anything about wall-clock time.')
claim('C02',
      'Start drains a received batch completely before receiving the next (receive sites guarded by batch_iter == None; the batch is '
      'dropped only when its iterator returned None); the receiving ends and the batcher are not Clone.',
      'the dynamic history equality; FIFO-ness of flume and TCP is trusted.')
claim('C20',
      'no Drop impl of the crate can reach NetworkSender::send / Batcher::{enqueue,flush,end} / channel send in the call graph (a '
      'panicking replica emits nothing while unwinding); no transport Result is discarded or neutralised (frozen exceptions); every '
      'JoinHandle::join result reaches unwrap/expect; the worker loop exits only on Terminate; sinks write their shared output only '
      'on the Terminate edge.',
      'that every blocked worker unwinds under all schedules (liveness), and which hosts observe the failure.')
claim('C03',
      'NextStrategy::index arm table (OnlyOne/All -> 0, Random -> rng, GroupBy -> keyer(message)); End::next / RoutingEnd::next '
      'decision tables extracted from MIR: data elements are enqueued unconditionally once per downstream block to '
      'senders[indexes[index % len]], control elements (Watermark, FlushAndRestart, Terminate) in the double loop over every block '
      'and replica index with the single allowed skip (Terminate towards the feedback block); senders are sorted before grouping.',
      'the concrete replica an element reaches for given replica counts (arithmetic on runtime values).')
claim('C09',
      'RoutingEnd sends a data element to the first matching route only (enqueue under is_match, not in a cycle), keeps routes in '
      'insertion order, broadcasts control to every route.',
      'multiset equalities and min(|a|,|b|) for concrete inputs.')
claim('C16',
      'Batcher appends (Vec::push of the message into self.buffer), ships the whole swapped-out buffer in flush/end, applies no '
      'reordering mutator to the buffer.',
      'order of delivered elements for concrete runs; the sort routine of reorder() is trusted.')
claim('C13',
      'event-time assignment closures give the half-open interval [start,end) (skip iff end <= ts, take iff start <= ts); slots are '
      'created with end = start + size; a window is released iff end <= watermark, results are stamped with the window end, only '
      'active slots produce results, FlushAndRestart/Terminate drain every slot; no manager keeps a slot across an iteration end.',
      'conservation for arbitrary out-of-order sequences; the numeric slot arithmetic.')
claim('C19',
      'ports are assigned only after coords.sort(), one fresh per-host offset per endpoint, every link (also remote-to-remote) is '
      'recorded before the early return; graph-building code iterates only seedless Fx/IndexMap maps apart from two frozen '
      'order-insensitive sites; each replica takes the current global counter which is incremented in the same loop, Limited takes '
      'min(remaining, cores) and subtracts it; the forward-wiring predicate equals the required 32-row truth table; to_remote / mux / '
      'demux guards.',
      'equality of the graphs for concrete configurations (needs evaluation); finding F5 (forward link to a narrower block) is a '
      'plan-shape issue reported under C19.R6 when armed.')
claim('C15',
      'file, CSV and parallel-iterator sources derive their partition from metadata.global_id over metadata.replicas.len() (never a '
      'per-host id); IteratorSource/ChannelSource return the constant Replication::One and their Clone::clone cannot return; CSV '
      'aligns start and end with the same terminator and computes end from the unaligned start; FileSource pairs `current <= end` with '
      'an unconditional first-line discard; every Range<_> generate_iterator clamps end-start at zero.',
      'byte/line arithmetic for concrete file contents and the chunk arithmetic of generate_iterator (value level).')
claim('C11',
      'BinaryStartReceiver decision tables: batches are cached iff the side is cached and Terminate never enters a cached batch; the '
      'cache pointer skips a batch delivered live; the cache is replayed only under cached && cache_full && !cache_finished; the '
      'first message of a round is requested from the non-cached side; reset rewinds only the cached side; one Terminate per cached '
      'replica is re-synthesised once both sides terminated.',
      'completeness of the cache under all interleavings (timing of cache_full); which side binary_connection marks as cached is '
      'checked under C11.R1 when the plan-shape engine is armed.')
claim('C01',
      'the partitioning discipline of every public combinator, extracted from MIR as an effect sequence (operators appended, block '
      'boundaries with their NextStrategy, replication restrictions, binary connections, finalisation) and composed through wrappers: '
      'global folds/sinks behind a one-replica funnel, two-phase forms local-shuffle-global, element-wise combinators create no '
      'boundary, joins/merge/zip/split/broadcast shapes; no combinator creates a forward link to a block of caller-chosen width.',
      'the end-to-end equality "multiset at each sink = sequential evaluation" for all programs, inputs and schedules.')
claim('C07',
      'aggregation plan shapes (fold/reduce behind a funnel; *_assoc and group_by_* = local phase, shuffle by group_by_hash of the key, '
      'global phase, same init in both phases); Fold/KeyedFold emit exactly what they drain, with the maximum timestamp; state reset '
      'per iteration (C05.R3).',
      'value equality (needs associativity/commutativity of user functions and arithmetic).')
claim('C08',
      'join shipping (hash/hash with keyer1/keyer2 through the same group_by constructor, forward/broadcast, forward/forward for keyed '
      'joins); protocol and state-reset rules on the five join operators (C05); mirror symmetry of the two sides; the interval join\'s '
      'window comparisons in the order domain (prune iff r < l-lower, match iff r <= l+upper, advance only when l+upper < last_seen or at '
      'the end of the iteration, probe/store by the element\'s own key).',
      'the relational result for arbitrary multisets and arrival orders; outer-join bookkeeping is only covered by the state/protocol rules.')

claim('C12',
      'structural clauses only: a count window is emitted exactly when the *oldest* slot\'s count equals `size` (comparison in the order '
      'domain), slots are handled oldest-first; at the end of an iteration nothing is emitted in exact mode (the flush is guarded by '
      '!exact), the non-exact flush takes the oldest slot filtered by count > 0, and all slots are dropped unconditionally; one manager '
      'per key and no slot across iterations (C13.R3 / C05.R4).',
      'the slot arithmetic itself (count / slide + 1 updates, ceil(size/slide) open slots, which elements land in which group) for all N, S '
      'and sequence lengths: integer reasoning over runtime quantities, no sound static argument in reach.')
claim('C14',
      'structural clauses only: processing-time assignment uses the half-open interval (skip iff end <= now, take iff start <= now), a slot '
      'is released only when end < now (it can no longer be assigned), slots are created with end = start + size, starts `slide` apart; '
      'all pending windows are drained at the end of the iteration and only active slots produce results; a session element is added to '
      'exactly one slot, unconditionally, and results are produced by taking the slot; one manager per key, nothing kept across iterations.',
      'everything that depends on the wall-clock instants returned by Instant::now(): which slot an element lands in, coverage counts for '
      'sliding windows.')
