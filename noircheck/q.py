"""Query helpers shared by the rule modules (E3/E4)."""
from .facts import is_local, self_field, AnchorMissing, op_place, op_fn
from .pathcond import PathEnum, simplify, show_dnf, show
from .symex import Sym, render, strip, roots, find_calls
from .absint import Bound

_pe = {}


def pe(facts, fn):
    k = (id(facts), id(fn))
    if k not in _pe:
        _pe[k] = (fn, PathEnum(facts, fn))     # the Fn is kept alive so that its id stays unique
    return _pe[k][1]


def sym(facts, fn):
    return pe(facts, fn).sym


def cond_of_block(facts, fn, b):
    """simplified DNF (set of frozensets of atoms) under which block b is reached from the entry"""
    p = pe(facts, fn)
    d = p.paths(lambda bb, st: bb == b)
    return simplify([a for a, _ in d])


def cond_has(dnf, pred):
    """every clause of the DNF contains an atom satisfying pred"""
    return bool(dnf) and all(any(pred(a) for a in c) for c in dnf)


def cond_some(dnf, pred):
    return any(any(pred(a) for a in c) for c in dnf)


def self_writes(fn, field=None):
    """assignments to a first-level field of *self: list of (block, stmt index, field, stmt)"""
    out = []
    for bi, blk in enumerate(fn.blocks):
        if blk['cleanup']:
            continue
        for si, s in enumerate(blk['s']):
            f = self_field(s['lhs'])
            if f is None and not is_local(s['lhs']):
                # through a reference local: resolve
                pass
            if f is not None and (field is None or f == field) and len(s['lhs']) == 3:
                out.append((bi, si, f, s))
    return out


def calls(fn, *paths, resolved=True):
    out = []
    for bi, t in fn.calls():
        c = t['callee']
        if c.get('path') in paths or (resolved and c.get('resolved') in paths):
            out.append((bi, t))
    return out


def calls_suffix(fn, suffix):
    out = []
    for bi, t in fn.calls():
        c = t['callee']
        if (c.get('path') or '').endswith(suffix) or (c.get('resolved') or '').endswith(suffix):
            out.append((bi, t))
    return out


def returns_variant(fn, adt, variant):
    """blocks that assign `_0 = adt::variant(..)`"""
    out = []
    for bi, blk in enumerate(fn.blocks):
        if blk['cleanup']:
            continue
        for s in blk['s']:
            if s['k'] == 'assign' and s['lhs'] == [0] and s['rv']['r'] == 'agg' and s['rv'].get('adt') == adt and s['rv'].get('v') == variant:
                out.append((bi, s))
    return out


def aggregates(fn, adt, variant=None):
    out = []
    for bi, blk in enumerate(fn.blocks):
        if blk['cleanup']:
            continue
        for s in blk['s']:
            if s['k'] == 'assign' and s['rv']['r'] == 'agg' and s['rv'].get('adt') == adt and (variant is None or s['rv'].get('v') == variant):
                out.append((bi, s))
    return out


def is_atom(kind, *contains):
    def p(a):
        if a[0] != kind:
            return False
        txt = ' '.join(str(x) for x in a[1:])
        return all(c in txt for c in contains)
    return p


def cmp_rel(a):
    return a[3] if a[0] == 'cmp' else None


_ope = {}


def op_pe(facts, fn):
    """PathEnum driven by the operator interpreter (input protocol, summaries, constructor state)"""
    from .opsum import automaton
    k = (id(facts), id(fn))
    if k not in _ope:
        a = automaton(facts, fn)
        from .opsum import OpInterp, se_summaries
        it = OpInterp(facts, fn, se_summaries(facts), protocol=False)
        p = PathEnum(facts, fn, interp=it)
        p.revisit = True
        # path conditions describe ONE activation that may be any activation: only what `next` itself never writes may be assumed
        # to still hold its constructed value (a field such as a remembered watermark is unknown at the start of an activation)
        from .modset import mod_fields
        import json as _json
        ms = mod_fields(facts, fn)

        def _written(k_):
            try:
                kp = _json.loads(k_)
            except ValueError:
                return False
            return len(kp) >= 3 and kp[0] == 1 and kp[1] == '*' and isinstance(kp[2], list) and kp[2][0] == 'f' and ('*' in ms or kp[2][2] in ms)
        p.init = {k_: v for k_, v in a.init.items() if not k_.startswith('["$') and not _written(k_)}
        _ope[k] = (fn, p)
    return _ope[k][1]


def op_cond_of_block(facts, fn, b):
    p = op_pe(facts, fn)
    d = p.paths(lambda bb, st: bb == b, init=p.init)
    return simplify([a for a, _ in d])


def input_is(v):
    return lambda a: a[0] == 'is' and a[1] == '<input>' and a[2] == v


def base_local(fn, op, depth=0):
    """the local a (reference) operand ultimately designates, following `_x = &P` / `_x = move _y` chains"""
    if op is None or op[0] == 'k':
        return None
    pl = op[1]
    loc = pl[0]
    while depth < 10:
        depth += 1
        d = fn.single_def(loc)
        if d is None or d[1] == 'T':
            return loc
        node = fn.def_node(d)
        rv = node['rv']
        if rv['r'] in ('ref', 'rawptr'):
            loc = rv['p'][0]
        elif rv['r'] in ('use', 'cast') and rv['o'][0] != 'k':
            loc = rv['o'][1][0]
        else:
            return loc
    return loc


def written_field_names(fn):
    """names of all fields (at any depth) assigned somewhere in fn"""
    out = set()
    for blk in fn.blocks:
        for s in blk['s']:
            for e in s['lhs'][1:]:
                if isinstance(e, list) and e[0] == 'f':
                    out.add(e[2])
    return out


def prune_contradictions(fn, dnf):
    """drop clauses that contain both X and !X for a plain field read X (no call inside) whose last field is
    never assigned in fn: such a path is infeasible"""
    wr = written_field_names(fn)
    out = []
    for c in dnf:
        bad = False
        for a in c:
            if a[0] == 'bool' and '(' not in a[1] and a[1].split('.')[-1] not in wr:
                if ('bool', a[1], not a[2]) in c:
                    bad = True
                    break
        if not bad:
            out.append(c)
    return out


def param(fn, ty_part, nth=0):
    """canonical name (`argN`) of the nth parameter whose declared type contains `ty_part`: rules designate parameters by their
    type / position, never by the name the source gives them"""
    def strip_ref(t):
        return t[5:] if t.startswith('&mut ') else (t[1:] if t.startswith('&') else t)
    hits = [i for i in range(1, fn.argc + 1) if (strip_ref(fn.locals[i]['ty']).startswith(ty_part[1:]) if ty_part.startswith('^') else ty_part in fn.locals[i]['ty'])]
    if len(hits) <= nth:
        raise AnchorMissing('%s has no parameter of type ..%s..' % (fn.path, ty_part))
    return 'arg%d' % hits[nth]


def term_match(a, b):
    """structural equality of two symex terms in which an unresolved local (`_N`) on either side matches any sub-term: two prints of
    the same source expression can be resolved to different depths"""
    a = strip(a) if isinstance(a, tuple) else a
    b = strip(b) if isinstance(b, tuple) else b
    if isinstance(a, tuple) and a and a[0] == 'local':
        return True
    if isinstance(b, tuple) and b and b[0] == 'local':
        return True
    if isinstance(a, tuple) and isinstance(b, tuple):
        if len(a) != len(b):
            return False
        return all(term_match(x, y) for x, y in zip(a, b))
    return a == b


def alternatives(facts, fn, term, depth=2, as_terms=False):
    """rendered alternatives of a symex term: every multiply-assigned local (`phi_N`) inside it is replaced, one alternative per
    definition (assignments and call results), up to `depth` levels. `match`/`if` expressions produce such locals, iterator / Option
    combinators do not, so rules that look for a sub-expression use this to be independent of which form the source uses."""
    sy = sym(facts, fn)

    def defs_of(n):
        out = []
        for (db, ds) in fn.defs().get(n, []):
            node = fn.def_node((db, ds))
            if ds != 'T':
                out.append(sy.rvalue(node['rv']))
            else:
                out.append(('call', node['callee'].get('path'), tuple(sy.operand(a_) for a_ in node['args']), node['callee'].get('path')))
        return out

    def expand(t, d):
        if not isinstance(t, tuple):
            return [t]
        if t and t[0] == 'phi' and d > 0 and isinstance(t[1], int):
            alts = []
            for x in defs_of(t[1]):
                alts.extend(expand(x, d - 1))
            return alts or [t]
        parts = [expand(x, d) for x in t]
        res = [()]
        for alts in parts:
            res = [r + (a_,) for r in res for a_ in alts][:16]
        return res
    out = expand(term, depth)
    if as_terms:
        return out
    return [render(strip(x)) if isinstance(x, tuple) else str(x) for x in out]


def covers_all(dnf, ignore=lambda a: False, limit=8192):
    """True if the disjunction of the clauses, with the atoms selected by `ignore` taken as true, holds for every valuation of the
    remaining atoms: discriminant tests range over the enum's variants (or the mentioned ones plus "another"), boolean expressions
    over {true, false}, comparisons over {<, =, >}, integer tests over the mentioned values plus "another". Returns None when the
    valuation space exceeds `limit`. Exact, order-independent replacement for syntactic clause merging."""
    import itertools
    from .pathcond import UNIVERSE
    clauses = [[a for a in c if not ignore(a)] for c in dnf]
    if any(not c for c in clauses):
        return True
    doms = {}
    for c in clauses:
        for a in c:
            if a[0] in ('is', 'isin', 'isnot'):
                vs = [a[2]] if a[0] == 'is' else list(a[2])
                d = doms.setdefault(('d', a[1]), set())
                d.update(vs)
            elif a[0] == 'bool':
                doms[('b', a[1])] = {True, False}
            elif a[0] == 'cmp':
                doms[('c', a[1], a[2])] = {'<', '=', '>'}
            elif a[0] in ('int', 'intnot'):
                doms.setdefault(('i', a[1]), set()).update(a[2])
            else:
                return False
    keys = sorted(doms, key=repr)
    spaces = []
    for k in keys:
        if k[0] == 'd':
            u = UNIVERSE.get(k[1])
            spaces.append(sorted(u) if u else sorted(doms[k]) + ['<other>'])
        elif k[0] == 'i':
            spaces.append(sorted(doms[k]) + ['<other>'])
        else:
            spaces.append(sorted(doms[k], key=repr))
    n = 1
    for sp in spaces:
        n *= len(sp)
        if n > limit:
            return None

    def holds(a, val):
        if a[0] == 'is':
            return val[('d', a[1])] == a[2]
        if a[0] == 'isin':
            return val[('d', a[1])] in a[2]
        if a[0] == 'isnot':
            return val[('d', a[1])] not in a[2]
        if a[0] == 'bool':
            return val[('b', a[1])] == a[2]
        if a[0] == 'cmp':
            return val[('c', a[1], a[2])] in a[3]
        if a[0] == 'int':
            return val[('i', a[1])] in a[2]
        if a[0] == 'intnot':
            return val[('i', a[1])] not in a[2]
        return False
    for combo in itertools.product(*spaces):
        val = dict(zip(keys, combo))
        if not any(all(holds(a, val) for a in c) for c in clauses):
            return False
    return True
