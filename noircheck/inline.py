"""MIR-fact inliner: a view of a function in which calls to *private helpers of the same type / same module* are replaced by
the helper's body. Rules that state a property of an entry point (`Operator::next`, `WindowManager::process`, a scheduler
step) are evaluated on this view, so that "extract a helper" / "inline a helper" refactorings do not change what they see.

The transformation is the textbook one on the simplified MIR:
  * callee locals are appended to the caller's locals (index shift), callee blocks to the caller's blocks (index shift);
  * the call block keeps its statements, gets `_arg_i = <operand_i>` assignments and jumps to the callee's entry block;
  * every `return` of the callee becomes `dest = move _ret ; goto <continuation of the call>`;
  * debug names of callee locals are kept (suffixing nothing: they are only used for rendering);
  * closures of the callee are recorded in `Fn.inlined_from` so that `Facts.closures_of` also returns them.
Nothing is executed; bounded by depth and size."""
import copy

from .facts import Fn

MAX_DEPTH = 3
MAX_CALLEE_BLOCKS = 160
MAX_TOTAL_BLOCKS = 1500


def _pl(pl, off, alias=None):
    # alias: callee local -> caller local it is known to be a copy of (the self reference)
    if alias and pl[0] in alias:
        out = [alias[pl[0]]]
    else:
        out = [pl[0] + off]
    for e in pl[1:]:
        if isinstance(e, list) and e and e[0] == 'i':
            out.append(['i', alias[e[1]] if (alias and e[1] in alias) else e[1] + off])
        else:
            out.append(e)
    return out


def _op(op, off, alias=None):
    if op is None:
        return None
    if op[0] in ('c', 'm'):
        return [op[0], _pl(op[1], off, alias)]
    return op


def _rv(rv, off, alias=None):
    r = dict(rv)
    k = r.get('r')
    if 'p' in r:
        r['p'] = _pl(r['p'], off, alias)
    if k == 'agg':
        r['o'] = [_op(o, off, alias) for o in r.get('o', [])]
    elif 'o' in r:
        r['o'] = _op(r['o'], off, alias)
    for key in ('a', 'b'):
        if key in r:
            r[key] = _op(r[key], off, alias)
    return r


def _stmt(s, off, alias=None):
    s2 = dict(s)
    s2['lhs'] = _pl(s['lhs'], off, alias)
    if 'rv' in s2:
        s2['rv'] = _rv(s2['rv'], off, alias)
    return s2


def _term(t, loff, boff, alias=None):
    t2 = dict(t)
    k = t['t']

    def bb(x):
        return None if x is None else x + boff
    if k == 'goto':
        t2['target'] = bb(t['target'])
    elif k == 'switch':
        t2['discr'] = _op(t['discr'], loff, alias)
        t2['targets'] = [[v, bb(b)] for v, b in t['targets']]
        t2['otherwise'] = bb(t['otherwise'])
    elif k == 'call':
        t2['args'] = [_op(a, loff, alias) for a in t['args']]
        t2['dest'] = _pl(t['dest'], loff, alias)
        t2['target'] = bb(t['target'])
        t2['unwind'] = bb(t.get('unwind'))
        c = dict(t['callee'])
        if c.get('indirect') is not None and isinstance(c.get('indirect'), list):
            c['indirect'] = _op(c['indirect'], loff)
        if isinstance(c.get('op'), list):
            c['op'] = _op(c['op'], loff)
        t2['callee'] = c
    elif k == 'drop':
        t2['p'] = _pl(t['p'], loff, alias)
        t2['target'] = bb(t['target'])
        t2['unwind'] = bb(t.get('unwind'))
    elif k == 'assert':
        t2['cond'] = _op(t['cond'], loff, alias)
        t2['target'] = bb(t['target'])
        t2['unwind'] = bb(t.get('unwind'))
    elif k == 'other':
        t2['succ'] = [bb(x) for x in t.get('succ', [])]
    return t2


def module_of(path):
    """module path of a free function: everything before the last `::` segment"""
    return path.rsplit('::', 1)[0]


def takes_self(h):
    """the helper has a self receiver (its first parameter is Self, &Self or &mut Self)"""
    if h.argc < 1 or not h.impl_self:
        return False
    ty = h.locals[1]['ty']
    return ty.replace('&mut ', '').replace('&', '').strip() == h.impl_self


def inlinable(facts, caller, t, stack, mode='all'):
    c = t['callee']
    p = c.get('resolved') or c.get('path')
    if not p or c.get('trait'):
        return None
    l = facts.by_path.get(p)
    h = l[0] if l else None
    if h is None or h.crate != caller.crate or h.kind not in ('fn', 'assoc') or h.path in stack:
        return None
    if h.impl_trait or h.in_trait:
        return None
    if len(h.blocks) > MAX_CALLEE_BLOCKS:
        return None
    if len(t['args']) != h.argc:
        return None
    cadt = caller.impl_adt
    if cadt is None and caller.kind == 'closure' and caller.root:
        rl = facts.by_path.get(caller.root)
        cadt = rl[0].impl_adt if rl else None
    same_type = h.impl_adt is not None and h.impl_adt == cadt
    same_module_free = h.kind == 'fn' and caller.kind in ('fn', 'closure') and module_of(h.path) == module_of(caller.root or caller.path)
    # a private `fn pred(&self) -> bool` of a sibling type of the same module (`SideReceiver::has_cached_items` used by
    # `BinaryStartReceiver::select`): a named sub-condition.  Only helpers that no rule names are expanded (a rule that speaks about
    # `cache_finished()` keeps seeing that call).
    sibling_pred = (h.impl_adt is not None and caller.impl_adt is not None and h.impl_adt != caller.impl_adt and not h.is_pub
                    and module_of(h.impl_adt) == module_of(caller.impl_adt) and h.locals[0]['ty'] == 'bool' and takes_self(h)
                    and h.argc == 1 and h.name not in anchored_names() and module_private(facts, h))
    if sibling_pred:
        return h
    # a private inherent method called from a closure of a method of the same type
    if not (same_type or same_module_free):
        return None
    if same_module_free and h.is_pub:
        return None
    if mode == 'self' and not (same_type and takes_self(h)):
        return None
    if not effectively_private(facts, h):
        return None
    return h


_ANCH = None


def anchored_names():
    """identifiers that occur in the rule sources: helpers with such a name are what some rule talks about and stay calls"""
    global _ANCH
    if _ANCH is None:
        import os
        import re
        d = os.path.join(os.path.dirname(os.path.abspath(__file__)), 'rules')
        names = set()
        for fnm in os.listdir(d):
            if fnm.endswith('.py'):
                names |= set(re.findall(r'[A-Za-z_][A-Za-z0-9_]*', open(os.path.join(d, fnm)).read()))
        _ANCH = names
    return _ANCH


def module_private(facts, h):
    """every caller of the method lives in the module that defines its type"""
    mod = module_of(h.impl_adt)
    callers = facts.callers().get(h.path, [])
    if not callers:
        return False
    for (g, _b) in callers:
        root = g
        if g.kind == 'closure':
            l = facts.by_path.get(g.root)
            root = l[0] if l else g
        where = root.impl_adt or root.path
        if module_of(where) != mod:
            return False
    return True


def effectively_private(facts, h):
    """every caller of the helper belongs to the helper's own type (or, for a free function, to its own module): it is an
    implementation detail of that type, not an interface other code relies on"""
    memo = facts.__dict__.setdefault('_effpriv', {})
    if h.path in memo:
        return memo[h.path]
    ok = True
    callers = facts.callers().get(h.path, [])
    for (g, _b) in callers:
        root = g
        if g.kind == 'closure':
            l = facts.by_path.get(g.root)
            root = l[0] if l else g
        if h.impl_adt is not None:
            if root.impl_adt != h.impl_adt:
                ok = False
        else:
            if module_of(root.path) != module_of(h.path) and not root.path.startswith(module_of(h.path) + '::'):
                ok = False
        if not ok:
            break
    if not callers:
        ok = False
    memo[h.path] = ok
    return ok


def inline_fn(facts, fn, depth=0, stack=(), mode='all'):
    """returns a new Fn (same path) with helper calls expanded, or `fn` itself when nothing was inlined"""
    if depth >= MAX_DEPTH:
        return fn
    raw = fn.raw
    sites = []
    for bi, blk in enumerate(raw['blocks']):
        t = blk['t']
        if t['t'] == 'call' and not blk.get('cleanup'):
            h = inlinable(facts, fn, t, stack + (fn.path,), mode)
            if h is not None:
                sites.append((bi, h))
    if not sites:
        return fn
    new = copy.deepcopy({k: v for k, v in raw.items() if k not in ('blocks', 'locals', 'vars')})
    locals_ = list(raw['locals'])
    blocks = copy.deepcopy(raw['blocks'])
    vars_ = list(raw.get('vars', []))
    inlined_from = list(getattr(fn, 'inlined_from', []))
    for bi, h in sites:
        hi = inline_fn(facts, h, depth + 1, stack + (fn.path,), mode)
        hraw = hi.raw
        if len(blocks) + len(hraw['blocks']) > MAX_TOTAL_BLOCKS:
            continue
        loff = len(locals_)
        boff = len(blocks)
        locals_.extend(copy.deepcopy(hraw['locals']))
        call = blocks[bi]['t']
        at = call.get('at')
        # the callee's `self` reference is the caller's: write its places directly as (*_1).f so that rules and the
        # abstract interpreter see one self, not a chain of reborrows
        alias = None
        if takes_self(h) and h.locals[1]['ty'].startswith('&') and fn.locals[1]['ty'].startswith('&') and call['args'] \
                and call['args'][0][0] in ('c', 'm') and len(call['args'][0][1]) == 1:
            src = call['args'][0][1][0]
            if src == 1:
                alias = {1: 1}
            elif src < len(raw['locals']):
                d = fn.single_def(src)
                if d is not None and d[1] != 'T':
                    rv0 = fn.def_node(d)['rv']
                    if rv0['r'] == 'ref' and rv0['p'] == [1, '*']:
                        alias = {1: 1}
                    elif rv0['r'] == 'use' and rv0['o'][0] in ('c', 'm') and rv0['o'][1] == [1]:
                        alias = {1: 1}
        for n, pl in hraw.get('vars', []):
            vars_.append([n, _pl(pl, loff, alias)])
        # argument passing
        for i, a in enumerate(call['args']):
            blocks[bi]['s'].append({'k': 'assign', 'lhs': [loff + 1 + i], 'rv': {'r': 'use', 'o': a}, 'at': at, 'inl': h.path})
        cont = call.get('target')
        dest = call['dest']
        blocks[bi]['t'] = {'t': 'goto', 'target': boff, 'at': at, 'inl_call': h.path}
        for hb in hraw['blocks']:
            nb = {'cleanup': hb.get('cleanup', False), 's': [_stmt(s_, loff, alias) for s_ in hb['s']], 't': _term(hb['t'], loff, boff, alias)}
            if hb['t']['t'] == 'return':
                nb['s'].append({'k': 'assign', 'lhs': dest, 'rv': {'r': 'use', 'o': ['m', [loff]]}, 'at': hb['t'].get('at', at), 'inl': h.path})
                if cont is None:
                    nb['t'] = {'t': 'unreachable', 'at': at}
                else:
                    nb['t'] = {'t': 'goto', 'target': cont, 'at': hb['t'].get('at', at)}
            blocks.append(nb)
        inlined_from.append(h.path)
        inlined_from.extend(getattr(hi, 'inlined_from', []))
    if not inlined_from:
        return fn
    new['locals'] = locals_
    new['blocks'] = blocks
    new['vars'] = vars_
    out = Fn(new, fn.crate)
    out.inlined_from = inlined_from
    out.original = fn
    return out
