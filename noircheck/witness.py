"""E6: compile_fail witnesses.  The doc-tests of /verif/witness are compiled (never run: the twins are `no_run`)
against the tree under analysis with `cargo +nightly test --doc` and the per-doctest verdicts are returned."""
import hashlib
import os
import re
import shutil
import subprocess

from . import gen

W_PROPS = {'W1': 'C08', 'W2': 'C08', 'W4': 'C04', 'W5': 'C04', 'W6': 'C10'}


def run(repo=None):
    """returns {witness struct name: {'fail_ok': bool, 'twin_ok': bool}} or raises SystemExit(2)"""
    repo = repo or gen.REPO
    import json, fcntl
    th = gen.tree_hash(repo)
    wh = hashlib.sha256(open(os.path.join(gen.VERIF, 'witness', 'src', 'lib.rs'), 'rb').read()).hexdigest()[:10]
    cache = os.path.join(gen.WORK, 'witness-results-%s-%s.json' % (th, wh))
    os.makedirs(gen.WORK, exist_ok=True)
    lock = open(os.path.join(gen.WORK, 'lock-witness'), 'w')
    fcntl.flock(lock, fcntl.LOCK_EX)
    try:
        if os.path.exists(cache):
            d = json.load(open(cache))
            return d['res'], d['out']
        res, out = _run(repo)
        json.dump({'res': res, 'out': out[-4000:]}, open(cache, 'w'))
        return res, out
    finally:
        fcntl.flock(lock, fcntl.LOCK_UN)
        lock.close()


def _run(repo):
    src = os.path.join(gen.VERIF, 'witness')
    work = os.path.join(gen.WORK, 'witness')
    os.makedirs(os.path.join(work, 'src'), exist_ok=True)
    toml = open(os.path.join(src, 'Cargo.toml.in')).read().replace('@REPO@', repo)
    open(os.path.join(work, 'Cargo.toml'), 'w').write(toml)
    shutil.copy(os.path.join(src, 'src', 'lib.rs'), os.path.join(work, 'src', 'lib.rs'))
    shutil.copy(os.path.join(repo, 'Cargo.lock'), os.path.join(work, 'Cargo.lock'))
    env = dict(os.environ, CARGO_NET_OFFLINE='true', CARGO_TARGET_DIR=os.path.join(gen.WORK, 'target-witness'), RUSTFLAGS='-Awarnings')
    env.pop('RUSTC_WORKSPACE_WRAPPER', None)
    r = subprocess.run(['cargo', '+nightly', 'test', '--doc', '--offline'], cwd=work, env=env, capture_output=True, text=True)
    out = r.stdout + r.stderr
    res = {}
    for m in re.finditer(r'^test src/lib\.rs - (\w+) \(line (\d+)\)( - compile fail| - compile)? \.\.\. (\w+)', out, re.M):
        name, line, kind, verdict = m.groups()
        d = res.setdefault(name, {})
        if kind and 'fail' in kind:
            d['fail_ok'] = (verdict == 'ok')
        else:
            d['twin_ok'] = (verdict == 'ok')
    if not res:
        print(out[-3000:])
        print('INCONCLUSIVE: the witness doc-tests did not run')
        raise SystemExit(2)
    return res, out
