// factgen: a rustc_private driver that dumps type-checked facts (ADT tables, impl tables and a
// simplified MIR of every function body) of the crate being compiled as one JSON file.
// It makes no judgement: every rule lives in /verif/noircheck (Python).
//
// Usage (see /verif/bin/check):
//   FACTGEN_OUT=<dir> RUSTC_WORKSPACE_WRAPPER=<factgen> cargo +nightly check --offline ...
// One file per compiled crate: <dir>/<crate>[-test]-<stable crate id>.json, written with a single
// write so parallel rustc processes never interleave.
#![feature(rustc_private)]
#![allow(clippy::all)]

extern crate rustc_abi;
extern crate rustc_driver;
extern crate rustc_hir;
extern crate rustc_interface;
extern crate rustc_middle;
extern crate rustc_span;

use rustc_driver::{Callbacks, Compilation};
use rustc_hir::def::DefKind;
use rustc_hir::def_id::{DefId, LOCAL_CRATE};
use rustc_interface::interface::Compiler;
use rustc_middle::mir::{
    AggregateKind, BasicBlock, Body, Const, Operand, Place, PlaceRef, ProjectionElem, Rvalue,
    StatementKind, TerminatorKind, UnwindAction, VarDebugInfoContents,
};
use rustc_middle::ty::print::{with_crate_prefix, with_no_trimmed_paths};
use rustc_middle::ty::{self, Ty, TyCtxt};
use rustc_span::{ExpnKind, Span};
use std::fmt::Write as _;

fn js(s: &str) -> String {
    let mut o = String::with_capacity(s.len() + 2);
    o.push('"');
    for c in s.chars() {
        match c {
            '"' => o.push_str("\\\""),
            '\\' => o.push_str("\\\\"),
            '\n' => o.push_str("\\n"),
            '\r' => o.push_str("\\r"),
            '\t' => o.push_str("\\t"),
            c if (c as u32) < 0x20 => {
                let _ = write!(o, "\\u{:04x}", c as u32);
            }
            c => o.push(c),
        }
    }
    o.push('"');
    o
}

fn p<T: FnOnce() -> String>(f: T) -> String {
    with_no_trimmed_paths!(with_crate_prefix!(f()))
}

struct Cx<'tcx> {
    tcx: TyCtxt<'tcx>,
}

impl<'tcx> Cx<'tcx> {
    fn path(&self, did: DefId) -> String {
        p(|| self.tcx.def_path_str(did))
    }
    fn tystr(&self, t: Ty<'tcx>) -> String {
        p(|| t.to_string())
    }
    fn loc(&self, span: Span) -> String {
        let sp = if span.from_expansion() { span.source_callsite() } else { span };
        let sm = self.tcx.sess.source_map();
        let l = sm.lookup_char_pos(sp.lo());
        let name = format!("{}", l.file.name.prefer_local_unconditionally());
        format!("{}:{}:{}", name, l.line, l.col.0 + 1)
    }
    fn expn(&self, span: Span) -> Option<String> {
        if !span.from_expansion() {
            return None;
        }
        let mut names: Vec<String> = Vec::new();
        let mut sp = span;
        let mut guard = 0;
        while sp.from_expansion() && guard < 16 {
            let ed = sp.ctxt().outer_expn_data();
            match ed.kind {
                ExpnKind::Macro(_, name) => names.push(name.to_string()),
                ExpnKind::Desugaring(k) => names.push(format!("desugar:{:?}", k)),
                ExpnKind::AstPass(k) => names.push(format!("astpass:{:?}", k)),
                ExpnKind::Root => {}
            }
            sp = ed.call_site;
            guard += 1;
        }
        names.reverse();
        Some(names.join(">"))
    }

    /// peel references / raw pointers / Box
    fn peel(&self, mut t: Ty<'tcx>) -> Ty<'tcx> {
        loop {
            match t.kind() {
                ty::Ref(_, inner, _) => t = *inner,
                ty::RawPtr(inner, _) => t = *inner,
                _ => return t,
            }
        }
    }

    fn place(&self, body: &Body<'tcx>, pl: Place<'tcx>) -> String {
        self.place_ref(body, pl.as_ref())
    }

    fn place_ref(&self, body: &Body<'tcx>, pl: PlaceRef<'tcx>) -> String {
        let mut o = String::new();
        let _ = write!(o, "[{}", pl.local.as_usize());
        for (base, elem) in pl.iter_projections() {
            o.push(',');
            match elem {
                ProjectionElem::Deref => o.push_str("\"*\""),
                ProjectionElem::Field(f, _) => {
                    let bt = base.ty(&body.local_decls, self.tcx);
                    let mut name = format!("{}", f.as_usize());
                    if let ty::Adt(adt, _) = bt.ty.kind() {
                        let v = match bt.variant_index {
                            Some(v) => Some(v),
                            None => {
                                if adt.is_struct() || adt.is_union() {
                                    Some(rustc_abi::FIRST_VARIANT)
                                } else {
                                    None
                                }
                            }
                        };
                        if let Some(v) = v {
                            let vd = adt.variant(v);
                            if f.as_usize() < vd.fields.len() {
                                name = vd.fields[f].name.to_string();
                            }
                        }
                    }
                    let _ = write!(o, "[\"f\",{},{}]", f.as_usize(), js(&name));
                }
                ProjectionElem::Downcast(name, vi) => {
                    let n = match name {
                        Some(s) => s.to_string(),
                        None => {
                            let bt = base.ty(&body.local_decls, self.tcx);
                            if let ty::Adt(adt, _) = bt.ty.kind() {
                                adt.variant(vi).name.to_string()
                            } else {
                                format!("{}", vi.as_usize())
                            }
                        }
                    };
                    let _ = write!(o, "[\"d\",{},{}]", js(&n), vi.as_usize());
                }
                ProjectionElem::Index(l) => {
                    let _ = write!(o, "[\"i\",{}]", l.as_usize());
                }
                ProjectionElem::ConstantIndex { offset, from_end, .. } => {
                    let _ = write!(o, "[\"ci\",{},{}]", offset, from_end);
                }
                ProjectionElem::Subslice { from, to, from_end } => {
                    let _ = write!(o, "[\"sub\",{},{},{}]", from, to, from_end);
                }
                _ => o.push_str("[\"x\"]"),
            }
        }
        o.push(']');
        o
    }

    fn konst(&self, c: &Const<'tcx>) -> String {
        let t = c.ty();
        let mut o = String::from("[\"k\",");
        let text = p(|| format!("{}", c));
        o.push_str(&js(&text));
        o.push(',');
        o.push_str(&js(&self.tystr(t)));
        if let ty::FnDef(did, args) = t.kind() {
            o.push(',');
            o.push_str(&js(&self.path(*did)));
            o.push(',');
            let full = p(|| self.tcx.def_path_str_with_args(*did, args));
            o.push_str(&js(&full));
        }
        o.push(']');
        o
    }

    fn operand(&self, body: &Body<'tcx>, op: &Operand<'tcx>) -> String {
        match op {
            Operand::Copy(pl) => format!("[\"c\",{}]", self.place(body, *pl)),
            Operand::Move(pl) => format!("[\"m\",{}]", self.place(body, *pl)),
            Operand::Constant(c) => self.konst(&c.const_),
            #[allow(unreachable_patterns)]
            _ => format!("[\"k\",{},\"?\"]", js(&format!("{:?}", op))),
        }
    }

    fn rvalue(&self, body: &Body<'tcx>, rv: &Rvalue<'tcx>) -> String {
        match rv {
            Rvalue::Use(op, ..) => format!("{{\"r\":\"use\",\"o\":{}}}", self.operand(body, op)),
            Rvalue::Ref(_, bk, pl) => format!(
                "{{\"r\":\"ref\",\"mut\":{},\"p\":{}}}",
                matches!(bk, rustc_middle::mir::BorrowKind::Mut { .. }),
                self.place(body, *pl)
            ),
            Rvalue::RawPtr(_, pl) => {
                format!("{{\"r\":\"rawptr\",\"p\":{}}}", self.place(body, *pl))
            }
            Rvalue::Discriminant(pl) => {
                format!("{{\"r\":\"discr\",\"p\":{}}}", self.place(body, *pl))
            }
            Rvalue::BinaryOp(op, ab) => format!(
                "{{\"r\":\"bin\",\"op\":{},\"a\":{},\"b\":{}}}",
                js(&format!("{:?}", op)),
                self.operand(body, &ab.0),
                self.operand(body, &ab.1)
            ),
            Rvalue::UnaryOp(op, a) => format!(
                "{{\"r\":\"un\",\"op\":{},\"a\":{}}}",
                js(&format!("{:?}", op)),
                self.operand(body, a)
            ),
            Rvalue::Cast(kind, op, t) => format!(
                "{{\"r\":\"cast\",\"k\":{},\"o\":{},\"ty\":{}}}",
                js(&format!("{:?}", kind)),
                self.operand(body, op),
                js(&self.tystr(*t))
            ),
            Rvalue::Aggregate(ak, ops) => {
                let mut o = String::from("{\"r\":\"agg\",");
                match &**ak {
                    AggregateKind::Adt(adt_did, vidx, _, _, active) => {
                        let adt = self.tcx.adt_def(*adt_did);
                        let v = adt.variant(*vidx);
                        let _ = write!(
                            o,
                            "\"k\":\"adt\",\"adt\":{},\"v\":{},\"vi\":{},",
                            js(&self.path(*adt_did)),
                            js(v.name.as_str()),
                            vidx.as_usize()
                        );
                        o.push_str("\"fields\":[");
                        if let Some(a) = active {
                            o.push_str(&js(v.fields[*a].name.as_str()));
                        } else {
                            for (i, f) in v.fields.iter().enumerate() {
                                if i > 0 {
                                    o.push(',');
                                }
                                o.push_str(&js(f.name.as_str()));
                            }
                        }
                        o.push_str("],");
                    }
                    AggregateKind::Tuple => o.push_str("\"k\":\"tuple\","),
                    AggregateKind::Array(_) => o.push_str("\"k\":\"array\","),
                    AggregateKind::Closure(did, _) => {
                        let _ = write!(o, "\"k\":\"closure\",\"def\":{},", js(&self.path(*did)));
                    }
                    _ => o.push_str("\"k\":\"other\","),
                }
                o.push_str("\"o\":[");
                for (i, op) in ops.iter().enumerate() {
                    if i > 0 {
                        o.push(',');
                    }
                    o.push_str(&self.operand(body, op));
                }
                o.push_str("]}");
                o
            }
            Rvalue::Repeat(op, _) => {
                format!("{{\"r\":\"repeat\",\"o\":{}}}", self.operand(body, op))
            }
            Rvalue::CopyForDeref(pl) => {
                format!("{{\"r\":\"use\",\"o\":[\"c\",{}]}}", self.place(body, *pl))
            }
            _ => format!("{{\"r\":\"other\",\"dbg\":{}}}", js(&p(|| format!("{:?}", rv)))),
        }
    }

    fn closure_of(&self, t: Ty<'tcx>) -> Option<DefId> {
        match self.peel(t).kind() {
            ty::Closure(did, _) => Some(*did),
            _ => None,
        }
    }

    fn callee(&self, owner: DefId, body: &Body<'tcx>, func: &Operand<'tcx>) -> String {
        let tcx = self.tcx;
        let fty = func.ty(&body.local_decls, tcx);
        let mut o = String::from("{");
        match fty.kind() {
            ty::FnDef(cd, gargs) => {
                let _ = write!(o, "\"path\":{}", js(&self.path(*cd)));
                let full = p(|| tcx.def_path_str_with_args(*cd, gargs));
                let _ = write!(o, ",\"full\":{}", js(&full));
                o.push_str(",\"gargs\":[");
                let mut first = true;
                for ga in gargs.iter() {
                    if let Some(t) = ga.as_type() {
                        if !first {
                            o.push(',');
                        }
                        first = false;
                        o.push_str(&js(&self.tystr(t)));
                    }
                }
                o.push(']');
                // closures among generic args
                o.push_str(",\"gclosures\":[");
                let mut first = true;
                for ga in gargs.iter() {
                    for inner in ga.walk() {
                        if let Some(t) = inner.as_type() {
                            if let ty::Closure(cdid, _) = t.kind() {
                                if !first {
                                    o.push(',');
                                }
                                first = false;
                                o.push_str(&js(&self.path(*cdid)));
                            }
                        }
                    }
                }
                o.push(']');
                if let Some(tr) = tcx.trait_of_assoc(*cd) {
                    let _ = write!(o, ",\"trait\":{}", js(&self.path(tr)));
                    if gargs.len() > 0 {
                        if let Some(st) = gargs[0].as_type() {
                            let _ = write!(o, ",\"self_ty\":{}", js(&self.tystr(st)));
                            if let ty::Adt(a, _) = self.peel(st).kind() {
                                let _ = write!(o, ",\"self_adt\":{}", js(&self.path(a.did())));
                            }
                        }
                    }
                } else if let Some(imp) = tcx.impl_of_assoc(*cd) {
                    let st = tcx.type_of(imp).instantiate_identity().skip_norm_wip();
                    let _ = write!(o, ",\"impl_self\":{}", js(&self.tystr(st)));
                    if let ty::Adt(a, _) = self.peel(st).kind() {
                        let _ = write!(o, ",\"self_adt\":{}", js(&self.path(a.did())));
                    }
                }
                let env = ty::TypingEnv::post_analysis(tcx, owner);
                if let Ok(Some(inst)) = ty::Instance::try_resolve(tcx, env, *cd, gargs) {
                    let rd = inst.def_id();
                    if rd != *cd {
                        let _ = write!(o, ",\"resolved\":{}", js(&self.path(rd)));
                    }
                    let kind = match inst.def {
                        ty::InstanceKind::Item(_) => "item",
                        ty::InstanceKind::Virtual(..) => "virtual",
                        ty::InstanceKind::ClosureOnceShim { .. } => "closure_once",
                        ty::InstanceKind::FnPtrShim(..) => "fnptr_shim",
                        ty::InstanceKind::DropGlue(..) => "drop_glue",
                        ty::InstanceKind::CloneShim(..) => "clone_shim",
                        ty::InstanceKind::Intrinsic(..) => "intrinsic",
                        _ => "other",
                    };
                    let _ = write!(o, ",\"inst\":{}", js(kind));
                }
            }
            _ => {
                let _ = write!(o, "\"indirect\":true,\"ty\":{}", js(&self.tystr(fty)));
                if let Some(cdid) = self.closure_of(fty) {
                    let _ = write!(o, ",\"resolved\":{}", js(&self.path(cdid)));
                }
                if let Some(pl) = func.place() {
                    let _ = write!(o, ",\"place\":{}", self.place(body, pl));
                }
            }
        }
        o.push('}');
        o
    }

    fn bb(&self, b: BasicBlock) -> usize {
        b.as_usize()
    }

    fn unwind(&self, u: &UnwindAction) -> String {
        match u {
            UnwindAction::Cleanup(b) => format!("{}", self.bb(*b)),
            _ => "null".to_string(),
        }
    }

    fn body(&self, did: DefId, body: &Body<'tcx>) -> String {
        let tcx = self.tcx;
        let mut o = String::new();
        o.push_str("\"locals\":[");
        for (i, ld) in body.local_decls.iter().enumerate() {
            if i > 0 {
                o.push(',');
            }
            let t = ld.ty;
            let _ = write!(o, "{{\"ty\":{}", js(&self.tystr(t)));
            let pt = self.peel(t);
            match pt.kind() {
                ty::Adt(a, _) => {
                    let _ = write!(o, ",\"adt\":{}", js(&self.path(a.did())));
                }
                ty::Closure(cd, _) => {
                    let _ = write!(o, ",\"closure\":{}", js(&self.path(*cd)));
                }
                ty::FnDef(fd, _) => {
                    let _ = write!(o, ",\"fndef\":{}", js(&self.path(*fd)));
                }
                _ => {}
            }
            o.push('}');
        }
        o.push_str("],\"vars\":[");
        let mut first = true;
        for v in body.var_debug_info.iter() {
            if let VarDebugInfoContents::Place(pl) = v.value {
                if !first {
                    o.push(',');
                }
                first = false;
                let _ = write!(o, "[{},{}]", js(v.name.as_str()), self.place(body, pl));
            }
        }
        o.push_str("],\"blocks\":[");
        for (bi, bd) in body.basic_blocks.iter().enumerate() {
            if bi > 0 {
                o.push(',');
            }
            let _ = write!(o, "{{\"cleanup\":{},\"s\":[", bd.is_cleanup);
            let mut first = true;
            for st in bd.statements.iter() {
                let s = match &st.kind {
                    StatementKind::Assign(b) => {
                        let (pl, rv) = &**b;
                        Some(format!(
                            "{{\"k\":\"assign\",\"lhs\":{},\"rv\":{}",
                            self.place(body, *pl),
                            self.rvalue(body, rv)
                        ))
                    }
                    StatementKind::SetDiscriminant { place, variant_index } => Some(format!(
                        "{{\"k\":\"setdiscr\",\"lhs\":{},\"vi\":{}",
                        self.place(body, **place),
                        variant_index.as_usize()
                    )),
                    _ => None,
                };
                if let Some(mut s) = s {
                    let sp = st.source_info.span;
                    let _ = write!(s, ",\"at\":{}", js(&self.loc(sp)));
                    if let Some(x) = self.expn(sp) {
                        let _ = write!(s, ",\"x\":{}", js(&x));
                    }
                    s.push('}');
                    if !first {
                        o.push(',');
                    }
                    first = false;
                    o.push_str(&s);
                }
            }
            o.push_str("],\"t\":");
            let term = bd.terminator();
            let sp = term.source_info.span;
            let mut t = String::new();
            match &term.kind {
                TerminatorKind::Goto { target } => {
                    let _ = write!(t, "{{\"t\":\"goto\",\"target\":{}", self.bb(*target));
                }
                TerminatorKind::SwitchInt { discr, targets } => {
                    let _ = write!(t, "{{\"t\":\"switch\",\"discr\":{},\"targets\":[", self.operand(body, discr));
                    let mut first = true;
                    for (v, b) in targets.iter() {
                        if !first {
                            t.push(',');
                        }
                        first = false;
                        let _ = write!(t, "[{},{}]", js(&format!("{}", v)), self.bb(b));
                    }
                    let _ = write!(t, "],\"otherwise\":{}", self.bb(targets.otherwise()));
                    // type of discriminant, to tell bool from integer
                    let dt = discr.ty(&body.local_decls, tcx);
                    let _ = write!(t, ",\"dty\":{}", js(&self.tystr(dt)));
                }
                TerminatorKind::Call { func, args, destination, target, unwind, fn_span, .. } => {
                    let _ = write!(t, "{{\"t\":\"call\",\"callee\":{},\"args\":[", self.callee(did, body, func));
                    for (i, a) in args.iter().enumerate() {
                        if i > 0 {
                            t.push(',');
                        }
                        t.push_str(&self.operand(body, &a.node));
                    }
                    let _ = write!(t, "],\"dest\":{}", self.place(body, *destination));
                    match target {
                        Some(b) => {
                            let _ = write!(t, ",\"target\":{}", self.bb(*b));
                        }
                        None => t.push_str(",\"target\":null"),
                    }
                    let _ = write!(t, ",\"unwind\":{}", self.unwind(unwind));
                    let _ = write!(t, ",\"fn_at\":{}", js(&self.loc(*fn_span)));
                }
                TerminatorKind::Drop { place, target, unwind, .. } => {
                    let _ = write!(
                        t,
                        "{{\"t\":\"drop\",\"p\":{},\"target\":{},\"unwind\":{}",
                        self.place(body, *place),
                        self.bb(*target),
                        self.unwind(unwind)
                    );
                }
                TerminatorKind::Assert { cond, expected, msg, target, unwind } => {
                    let kind = format!("{:?}", msg);
                    let short: String = kind.chars().take(120).collect();
                    let _ = write!(
                        t,
                        "{{\"t\":\"assert\",\"cond\":{},\"expected\":{},\"msg\":{},\"target\":{},\"unwind\":{}",
                        self.operand(body, cond),
                        expected,
                        js(&short),
                        self.bb(*target),
                        self.unwind(unwind)
                    );
                }
                TerminatorKind::Return => t.push_str("{\"t\":\"return\""),
                TerminatorKind::Unreachable => t.push_str("{\"t\":\"unreachable\""),
                TerminatorKind::UnwindResume => t.push_str("{\"t\":\"resume\""),
                TerminatorKind::UnwindTerminate(_) => t.push_str("{\"t\":\"abort\""),
                TerminatorKind::FalseEdge { real_target, .. } => {
                    let _ = write!(t, "{{\"t\":\"goto\",\"target\":{}", self.bb(*real_target));
                }
                TerminatorKind::FalseUnwind { real_target, .. } => {
                    let _ = write!(t, "{{\"t\":\"goto\",\"target\":{}", self.bb(*real_target));
                }
                other => {
                    let _ = write!(t, "{{\"t\":\"other\",\"dbg\":{}", js(&format!("{:?}", other)));
                    t.push_str(",\"succ\":[");
                    for (i, s) in other.successors().enumerate() {
                        if i > 0 {
                            t.push(',');
                        }
                        let _ = write!(t, "{}", self.bb(s));
                    }
                    t.push(']');
                }
            }
            let _ = write!(t, ",\"at\":{}", js(&self.loc(sp)));
            if let Some(x) = self.expn(sp) {
                let _ = write!(t, ",\"x\":{}", js(&x));
            }
            t.push('}');
            o.push_str(&t);
            o.push('}');
        }
        o.push(']');
        o
    }
}

struct Cb;

impl Callbacks for Cb {
    fn after_analysis<'tcx>(&mut self, _c: &Compiler, tcx: TyCtxt<'tcx>) -> Compilation {
        let out_dir = match std::env::var("FACTGEN_OUT") {
            Ok(d) => d,
            Err(_) => return Compilation::Continue,
        };
        let crate_name = tcx.crate_name(LOCAL_CRATE).to_string();
        if crate_name.starts_with("build_script") {
            return Compilation::Continue;
        }
        if let Ok(only) = std::env::var("FACTGEN_ONLY") {
            if !only.split(',').any(|c| c == crate_name) {
                return Compilation::Continue;
            }
        }
        let cx = Cx { tcx };
        let is_test = tcx.sess.opts.test;
        let mut o = String::with_capacity(64 << 20);
        let _ = write!(
            o,
            "{{\"crate\":{},\"test\":{},\"rustc\":{},",
            js(&crate_name),
            is_test,
            js(option_env!("CFG_VERSION").unwrap_or("nightly"))
        );

        // ---- ADTs, impls, consts
        let mut adts = Vec::new();
        let mut impls = Vec::new();
        let mut consts = Vec::new();
        let mut traits = Vec::new();
        for ldid in tcx.hir_crate_items(()).definitions() {
            let did = ldid.to_def_id();
            match tcx.def_kind(did) {
                DefKind::Struct | DefKind::Enum | DefKind::Union => {
                    let adt = tcx.adt_def(did);
                    let mut s = String::new();
                    let _ = write!(
                        s,
                        "{{\"path\":{},\"kind\":{},\"pub\":{},\"at\":{},\"variants\":[",
                        js(&cx.path(did)),
                        js(if adt.is_enum() { "enum" } else if adt.is_union() { "union" } else { "struct" }),
                        tcx.visibility(did).is_public(),
                        js(&cx.loc(tcx.def_span(did)))
                    );
                    for (vi, v) in adt.variants().iter().enumerate() {
                        if vi > 0 {
                            s.push(',');
                        }
                        let _ = write!(s, "{{\"name\":{},\"fields\":[", js(v.name.as_str()));
                        for (fi, f) in v.fields.iter().enumerate() {
                            if fi > 0 {
                                s.push(',');
                            }
                            let ft = tcx.type_of(f.did).instantiate_identity().skip_norm_wip();
                            let _ = write!(
                                s,
                                "{{\"name\":{},\"ty\":{},\"pub\":{}",
                                js(f.name.as_str()),
                                js(&cx.tystr(ft)),
                                f.vis.is_public()
                            );
                            if let ty::Adt(a, _) = cx.peel(ft).kind() {
                                let _ = write!(s, ",\"adt\":{}", js(&cx.path(a.did())));
                            }
                            s.push('}');
                        }
                        s.push_str("]}");
                    }
                    s.push_str("]}");
                    adts.push(s);
                }
                DefKind::Impl { of_trait } => {
                    let st = tcx.type_of(did).instantiate_identity().skip_norm_wip();
                    let mut s = String::new();
                    let _ = write!(s, "{{\"self_ty\":{}", js(&cx.tystr(st)));
                    if let ty::Adt(a, _) = cx.peel(st).kind() {
                        let _ = write!(s, ",\"self_adt\":{}", js(&cx.path(a.did())));
                    }
                    if of_trait {
                        let tr = tcx.impl_trait_ref(did).instantiate_identity().skip_norm_wip();
                        let _ = write!(s, ",\"trait\":{}", js(&cx.path(tr.def_id)));
                        let _ = write!(s, ",\"trait_full\":{}", js(&p(|| tr.to_string())));
                    }
                    let _ = write!(s, ",\"at\":{},\"items\":[", js(&cx.loc(tcx.def_span(did))));
                    for (i, it) in tcx.associated_item_def_ids(did).iter().enumerate() {
                        if i > 0 {
                            s.push(',');
                        }
                        let _ = write!(
                            s,
                            "[{},{}]",
                            js(tcx.item_name(*it).as_str()),
                            js(&cx.path(*it))
                        );
                    }
                    s.push_str("]}");
                    impls.push(s);
                }
                DefKind::Trait => {
                    let mut s = String::new();
                    let _ = write!(s, "{{\"path\":{},\"items\":[", js(&cx.path(did)));
                    for (i, it) in tcx.associated_item_def_ids(did).iter().enumerate() {
                        if i > 0 {
                            s.push(',');
                        }
                        s.push_str(&js(tcx.item_name(*it).as_str()));
                    }
                    s.push_str("]}");
                    traits.push(s);
                }
                DefKind::Const { .. } | DefKind::AssocConst { .. } | DefKind::Static { .. } => {
                    let t = tcx.type_of(did).instantiate_identity().skip_norm_wip();
                    let mut s = String::new();
                    let _ = write!(
                        s,
                        "{{\"path\":{},\"ty\":{},\"at\":{}",
                        js(&cx.path(did)),
                        js(&cx.tystr(t)),
                        js(&cx.loc(tcx.def_span(did)))
                    );
                    if matches!(tcx.def_kind(did), DefKind::Const { .. }) && t.is_integral() {
                        if let Ok(v) = tcx.const_eval_poly(did) {
                            if let Some(si) = v.try_to_scalar_int() {
                                let _ = write!(s, ",\"value\":{}", js(&format!("{:?}", si)));
                            }
                        }
                    }
                    s.push('}');
                    consts.push(s);
                }
                _ => {}
            }
        }
        let _ = write!(o, "\"adts\":[{}],", adts.join(","));
        let _ = write!(o, "\"impls\":[{}],", impls.join(","));
        let _ = write!(o, "\"traits\":[{}],", traits.join(","));
        let _ = write!(o, "\"consts\":[{}],", consts.join(","));

        // ---- function bodies
        o.push_str("\"fns\":[");
        let mut first = true;
        for ldid in tcx.mir_keys(()) {
            let did = ldid.to_def_id();
            let kind = tcx.def_kind(did);
            let kname = match kind {
                DefKind::Fn => "fn",
                DefKind::AssocFn => "assoc",
                DefKind::Closure => "closure",
                _ => continue,
            };
            if tcx.is_constructor(did) {
                continue;
            }
            let body = tcx.optimized_mir(did);
            if !first {
                o.push(',');
            }
            first = false;
            let _ = write!(o, "{{\"path\":{},\"kind\":{}", js(&cx.path(did)), js(kname));
            let parent = tcx.parent(did);
            let _ = write!(o, ",\"parent\":{}", js(&cx.path(parent)));
            let root = tcx.typeck_root_def_id(did);
            if root != did {
                let _ = write!(o, ",\"root\":{}", js(&cx.path(root)));
            }
            let _ = write!(o, ",\"name\":{}", js(&match tcx.opt_item_name(did) {
                Some(n) => n.to_string(),
                None => String::from("{closure}"),
            }));
            if matches!(kind, DefKind::Fn | DefKind::AssocFn) {
                let _ = write!(o, ",\"pub\":{}", tcx.visibility(did).is_public());
                let sig = tcx.fn_sig(did).instantiate_identity().skip_norm_wip();
                let _ = write!(o, ",\"unsafe\":{}", !sig.safety().is_safe());
                let _ = write!(o, ",\"sig\":{}", js(&p(|| sig.to_string())));
            }
            if let Some(imp) = tcx.impl_of_assoc(root) {
                let st = tcx.type_of(imp).instantiate_identity().skip_norm_wip();
                let _ = write!(o, ",\"impl_self\":{}", js(&cx.tystr(st)));
                if let ty::Adt(a, _) = cx.peel(st).kind() {
                    let _ = write!(o, ",\"impl_adt\":{}", js(&cx.path(a.did())));
                }
                if matches!(tcx.def_kind(imp), DefKind::Impl { of_trait: true }) {
                    let tr = tcx.impl_trait_ref(imp).instantiate_identity().skip_norm_wip();
                    let _ = write!(o, ",\"impl_trait\":{}", js(&cx.path(tr.def_id)));
                }
            } else if let Some(tr) = tcx.trait_of_assoc(root) {
                let _ = write!(o, ",\"in_trait\":{}", js(&cx.path(tr)));
            }
            let _ = write!(o, ",\"at\":{}", js(&cx.loc(tcx.def_span(did))));
            let _ = write!(o, ",\"argc\":{},", body.arg_count);
            o.push_str(&cx.body(did, body));
            o.push('}');
        }
        o.push_str("]}");

        let sid = format!("{:x}", tcx.stable_crate_id(LOCAL_CRATE).as_u64());
        let fname = format!(
            "{}/{}{}-{}.json",
            out_dir,
            crate_name,
            if is_test { "-test" } else { "" },
            sid
        );
        let tmp = format!("{}.tmp{}", fname, std::process::id());
        std::fs::write(&tmp, o.as_bytes()).expect("factgen: cannot write facts");
        std::fs::rename(&tmp, &fname).expect("factgen: cannot rename facts");
        Compilation::Continue
    }
}

fn main() {
    let mut args: Vec<String> = std::env::args().collect();
    // RUSTC_WORKSPACE_WRAPPER passes the real rustc path as argv[1]
    if args.len() > 1 && (args[1].ends_with("rustc") || args[1].contains("/rustc")) {
        args.remove(1);
    }
    rustc_driver::run_compiler(&args, &mut Cb);
}
