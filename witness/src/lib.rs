//! Compile-fail witnesses, each paired with a compiling twin that differs only by the offending line.
//! Run with `cargo +nightly test --doc` (error codes are ignored on stable).

/// W1 (C08): an outer join after broadcasting the right side would duplicate unmatched right rows on every
/// replica: the builder must not offer `.outer()` there.
/// ```compile_fail,E0599
/// use renoir::prelude::*;
/// let env = StreamContext::new_local();
/// let a = env.stream_iter(0..10u32);
/// let b = env.stream_iter(0..10u32);
/// let _ = a.join_with(b, |x| *x, |y| *y).ship_broadcast_right().local_hash().outer();
/// ```
/// twin:
/// ```no_run
/// use renoir::prelude::*;
/// let env = StreamContext::new_local();
/// let a = env.stream_iter(0..10u32);
/// let b = env.stream_iter(0..10u32);
/// let _ = a.join_with(b, |x| *x, |y| *y).ship_broadcast_right().local_hash().left();
/// ```
pub struct W1BroadcastHashOuter;

/// W2 (C08): same for the sort-merge local strategy.
/// ```compile_fail,E0599
/// use renoir::prelude::*;
/// let env = StreamContext::new_local();
/// let a = env.stream_iter(0..10u32);
/// let b = env.stream_iter(0..10u32);
/// let _ = a.join_with(b, |x| *x, |y| *y).ship_broadcast_right().local_sort_merge().outer();
/// ```
/// twin:
/// ```no_run
/// use renoir::prelude::*;
/// let env = StreamContext::new_local();
/// let a = env.stream_iter(0..10u32);
/// let b = env.stream_iter(0..10u32);
/// let _ = a.join_with(b, |x| *x, |y| *y).ship_broadcast_right().local_sort_merge().left();
/// ```
pub struct W2BroadcastSortMergeOuter;

/// W4 (C04): a sink's output handle yields its result once: `get` consumes the handle.
/// ```compile_fail,E0382
/// use renoir::prelude::*;
/// let env = StreamContext::new_local();
/// let out = env.stream_iter(0..10u32).collect_vec();
/// let _a = out.get();
/// let _b = out.get();
/// ```
/// twin:
/// ```no_run
/// use renoir::prelude::*;
/// let env = StreamContext::new_local();
/// let out = env.stream_iter(0..10u32).collect_vec();
/// let _a = out.get();
/// ```
pub struct W4OutputOnce;

/// W5 (C04): a job is executed once: `execute_blocking` consumes the context.
/// ```compile_fail,E0382
/// use renoir::prelude::*;
/// let env = StreamContext::new_local();
/// env.stream_iter(0..10u32).for_each(|_| ());
/// env.execute_blocking();
/// env.execute_blocking();
/// ```
/// twin:
/// ```no_run
/// use renoir::prelude::*;
/// let env = StreamContext::new_local();
/// env.stream_iter(0..10u32).for_each(|_| ());
/// env.execute_blocking();
/// ```
pub struct W5ExecuteOnce;

/// W6 (C10): user code inside a loop body holds an `IterationStateHandle`; it can read the state but the
/// setter is not reachable from outside the crate.
/// ```compile_fail,E0624
/// use renoir::prelude::*;
/// let env = StreamContext::new_local();
/// let s = env.stream_iter(0..3u32).shuffle();
/// let _ = s.replay(
///     2,
///     0u32,
///     |s, state| { unsafe { state.set(7) }; s },
///     |d: &mut u32, x| *d += x,
///     |st, d| *st += d,
///     |_| true,
/// );
/// ```
/// twin:
/// ```no_run
/// use renoir::prelude::*;
/// let env = StreamContext::new_local();
/// let s = env.stream_iter(0..3u32).shuffle();
/// let _ = s.replay(
///     2,
///     0u32,
///     |s, state| { let _ = state.get(); s },
///     |d: &mut u32, x| *d += x,
///     |st, d| *st += d,
///     |_| true,
/// );
/// ```
pub struct W6StateSetterPrivate;
