pub struct Sender<T>(pub std::marker::PhantomData<T>);
impl<T> Sender<T> {
    pub fn send(&self, _m: T) -> Result<(), T> {
        Ok(())
    }
    pub fn try_send(&self, m: T) -> Result<(), T> {
        Err(m)
    }
}
