#![allow(dead_code, unused_must_use, clippy::all)]
//! Positive controls. Nothing here is ever executed; it is only compiled by the factgen driver.

pub mod network {
    /// C02.R8 control: a link hop that forwards with a non-blocking send drops the message when the queue is full
    pub fn lossy_forward(s: &flume::Sender<u8>, m: u8) {
        if let Err(_e) = s.try_send(m) {}
    }
    pub fn blocking_forward(s: &flume::Sender<u8>, m: u8) {
        s.send(m).unwrap();
    }
    pub mod network_channel {
        pub struct NetworkSender<Out>(pub std::marker::PhantomData<Out>);
        impl<Out> NetworkSender<Out> {
            pub fn send(&self, _m: Out) -> Result<(), ()> {
                Ok(())
            }
            pub fn try_send(&self, _m: Out) -> Result<(), ()> {
                Ok(())
            }
        }
    }
}

pub mod channel {
    pub struct Sender<T>(pub std::marker::PhantomData<T>);
    impl<T> Sender<T> {
        pub fn send(&self, _m: T) -> Result<(), ()> {
            Ok(())
        }
    }
}

pub mod block {
    pub mod batcher {
        use crate::network::network_channel::NetworkSender;
        pub struct Batcher<Out> {
            pub remote_sender: NetworkSender<Out>,
            pub buffer: Vec<Out>,
        }
        impl<Out> Batcher<Out> {
            pub fn enqueue(&mut self, m: Out) {
                self.buffer.push(m);
            }
            pub fn flush(&mut self) {
                if let Some(m) = self.buffer.pop() {
                    self.remote_sender.send(m).unwrap();
                }
            }
            pub fn end(mut self) {
                self.flush()
            }
        }
    }
}

pub mod controls {

    use crate::block::batcher::Batcher;
    use crate::channel::Sender;

    /// C20.R1 positive control: a Drop impl that flushes a batcher (would emit elements while unwinding).
    pub struct FlushOnDrop {
        pub batcher: Batcher<u32>,
    }
    impl Drop for FlushOnDrop {
        fn drop(&mut self) {
            self.batcher.flush();
        }
    }

    /// C20.R1 positive control through a generic callback, like worker::CatchPanic.
    pub struct Guard<F: FnOnce()> {
        pub handler: Option<F>,
    }
    impl<F: FnOnce()> Drop for Guard<F> {
        fn drop(&mut self) {
            (self.handler.take().unwrap())();
        }
    }
    pub fn build_guard(s: &Sender<u8>) {
        let _g = Guard {
            handler: Some(|| {
                s.send(1).unwrap();
            }),
        };
    }

    /// C20.R2 / C02.R2 positive controls: transport results swallowed.
    pub fn swallow_send(s: &Sender<u8>) {
        let _ = s.send(1);
    }
    pub fn neutralise_send(s: &Sender<u8>) {
        // the failure is turned into a bool that nobody looks at
        let _ = s.send(2).is_ok();
    }
    /// not a swallow: the bool decides the caller's own Result (must NOT be reported)
    pub fn forward_send_status(s: &Sender<u8>) -> Result<(), ()> {
        let delivered = s.send(3).is_ok();
        if delivered {
            Ok(())
        } else {
            Err(())
        }
    }

    /// C20.R3 positive controls: join results ignored.
    pub fn ignore_join(h: std::thread::JoinHandle<()>) {
        let _ = h.join();
    }
    pub fn check_join(h: std::thread::JoinHandle<()>) {
        h.join().unwrap();
    }
}

pub mod operator {
    pub enum StreamElement<T> {
        Item(T),
    }
}

/// C02.R9 / C16.R5 positive control: a batch cut in two and forwarded tail first.
pub mod partition_control {
    use crate::operator::StreamElement;
    pub struct Msg<T> {
        pub data: Vec<StreamElement<T>>,
    }
    impl<T> Msg<T> {
        pub fn halves(self) -> (Self, Self) {
            let mut data = self.data;
            let tail = data.split_off(data.len() / 2);
            (Msg { data: tail }, Msg { data })
        }
    }
    pub fn ship<T>(_m: Msg<T>) {}
    pub fn forward_tail_first<T>(m: Msg<T>) {
        let (a, b) = m.halves();
        ship(a);
        ship(b);
    }
}
